//go:build verif

package shmipc

// C05 correspondence + oracle harness (mechanism S).
//
// The REAL queue.put/pop/markWorking/markNotWorking/size, the REAL Session.wakeUpPeer and the REAL
// handlePolling (instrumented copies of /repo's current queue.go, session.go, protocol_manager.go) run
// on two bare in-package sessions A (producing side) and B (consuming side) that share one queue
// memory.  The control connection is an in-memory eventConn: write appends the event to an in-flight
// list; the schedule decides when the consumer thread (B's event loop) takes the next event and, for a
// polling event, calls handlePolling(B, hdr, nil).  A's send loop (session.go send) blocks on channels
// and is therefore played by a cooperative harness thread that mirrors it statement by statement.
// Every shared access, the per-step protocol state and the independent property oracle are written to
// VERIF_OUT, one case per line.

import (
	"fmt"
	"testing"
	"unsafe"
)

const (
	c05OpSend  = 0 // Stream.Flush of a shared-memory message
	c05OpOther = 1 // another writer of the control connection
	c05OpClose = 2 // Stream.close (close element through the queue)
)

type c05Case struct {
	ID        int         `json:"id"`
	Strat     string      `json:"strat"`
	Progs     [][]int     `json:"progs"`
	Steps     []vsStepRec `json:"steps"`
	Obs       [][4]int64  `json:"obs"` // after each step: queue size, flag, polling events in flight, consumer idle
	Marks     int         `json:"marks"`
	Written   int         `json:"written"`
	Handled   int         `json:"handled"`
	Quiescent bool        `json:"quiescent"`
	FinalSize int64       `json:"final_size"`
	Oracle    []string    `json:"oracle"`
	Feat      []string    `json:"feat"`
}

// c05Conn is the in-memory control connection of session A.
type c05Conn struct {
	inflight []int // event types written and not yet taken by the peer
	cell     *int64
	polls    int
	onWrite  func(typ int)
}

func (c *c05Conn) commitRead(n int)                       {}
func (c *c05Conn) setCallback(cb eventConnCallback) error { return nil }
func (c *c05Conn) close() error                           { return nil }
func (c *c05Conn) writev(data ...[]byte) error {
	for _, d := range data {
		if err := c.write(d); err != nil {
			return err
		}
	}
	return nil
}
func (c *c05Conn) write(data []byte) error {
	vsPre()
	typ := int(header(data).MsgType())
	c.inflight = append(c.inflight, typ)
	if typ == int(typePolling) {
		c.polls++
	}
	if c.onWrite != nil {
		c.onWrite(typ)
	}
	vsLog(vsKW, unsafe.Pointer(c.cell), int64(typ), 0, 0)
	return nil
}

func c05Run(id int, strat string, progs [][]int, mk func(nthreads int) vsChooser) c05Case {
	c := c05Case{ID: id, Strat: strat, Progs: progs}
	vsReset()
	total := 0
	for _, p := range progs {
		total += len(p)
	}
	qcap := total + 2 // never full: a full put is no operation of this protocol
	data := make([]byte, queueHeaderLength+qcap*queueElementLen+8)
	mem := data[:queueHeaderLength+qcap*queueElementLen]
	qa := createQueueFromBytes(mem, uint32(qcap))
	qb := mappingQueueFromBytes(mem)
	virt := new([4]int64) // virtual cells: [0] connection, [1] sendCh, [2] notifyContinueWriteCh
	conn := &c05Conn{cell: &virt[0]}
	bmem := make([]byte, 32<<10)
	bmA, errA := createBufferManager([]*SizePercentPair{{Size: 64, Percent: 100}}, "", bmem, 0)
	bmB, errB := mappingBufferManager("", bmem, 0)
	if errA != nil || errB != nil {
		panic(fmt.Sprint("c05: buffer manager: ", errA, errB))
	}
	A := &Session{
		bufferManager:         bmA,
		logger:                newSessionLogger(true, nil),
		queueManager:          &queueManager{sendQueue: qa},
		eventConn:             conn,
		sendCh:                make(chan sendReady, 4096),
		notifyContinueWriteCh: make(chan struct{}, 1),
		shutdownCh:            make(chan struct{}),
		isClient:              true,
	}
	B := &Session{
		bufferManager: bmB,
		logger:        newSessionLogger(true, nil),
		queueManager:  &queueManager{recvQueue: qb},
		shutdownCh:   make(chan struct{}),
		isClient:     true, // getStream never accepts
	}
	vsAddRegion(unsafe.Pointer(&data[0]), len(mem))    // region 0: the shared queue
	vsAddRegion(unsafe.Pointer(&A.writing), 4)         // region 1: Session.writing
	vsAddRegion(unsafe.Pointer(&virt[0]), 32)          // region 2: virtual cells
	vsAddRegion(unsafe.Pointer(&A.shutdown), 4)        // region 3: Session.shutdown (read by Stream.close; not part of the protocol)
	sockCell, sendChCell, notifCell := unsafe.Pointer(&virt[0]), unsafe.Pointer(&virt[1]), unsafe.Pointer(&virt[2])
	vs.active = true

	pollHdr := pollingEventWithVersion[0]
	// the "other" event of the connection: a stream-close event for a stream the peer does not know; the REAL
	// handleStreamClose empties the receive queue in front of it (consumeRecvQueue) and then finds no stream
	otherEv := make([]byte, headerSize+4)
	header(otherEv).encode(headerSize+4, 0, typeStreamClose)
	otherEv[headerSize], otherEv[headerSize+1], otherEv[headerSize+2], otherEv[headerSize+3] = 0, 0xFF, 0xFF, 0xFF

	nprod := len(progs)
	stop := false
	consIdle := true
	slHold := -1 // event type the send loop holds, -1 = none
	slBusy := false
	othersQueued := 0
	inSend := make([]bool, nprod)
	putFailed := false
	handled := 0
	slowPath, lateDelivery, whileDraining, drainedEarly := false, false, false, false
	slWriting := false
	slParked := false // the send loop waits on notifyContinueWriteCh
	conn.onWrite = func(typ int) {
		if typ == int(typePolling) && !consIdle {
			whileDraining = true
		}
		if slWriting { // the send loop holds `writing`: this write is its own
			slHold, slWriting = -1, false
		}
	}

	streams := make([]*Stream, nprod)
	for i := range streams {
		streams[i] = newStream(A, uint32(100+i))
	}
	var threads []*vsThread
	for i := range progs {
		i := i
		threads = append(threads, vsSpawn(func() {
			for k, op := range progs[i] {
				if op == c05OpOther {
					// another writer of the control connection (waitForSend: fallback data, close event)
					vsPre()
					A.sendCh <- sendReady{nil, otherEv, nil}
					othersQueued++
					vsLog(vsKW, sendChCell, int64(typeStreamClose), 0, 0)
					continue
				}
				inSend[i] = true
				var err error
				if op == c05OpClose {
					// the REAL Stream.close(): close element {id, 0, streamClosed} + wakeUpPeer; B has no such
					// stream: handlePolling treats the element as a no-op
					err = newStream(A, uint32(1000+16*i+k)).close()
				} else {
					// the REAL Stream.Flush(): data element + wakeUpPeer; B (client side) has no such stream:
					// handlePolling reads the slice and recycles it
					st := streams[i]
					st.sendBuf.WriteString("x")
					err = st.Flush(false)
				}
				if err != nil {
					putFailed = true
				}
				inSend[i] = false
			}
		}))
	}
	// B's event loop
	threads = append(threads, vsSpawn(func() {
		for {
			vsPre()
			if stop {
				return
			}
			if len(conn.inflight) == 0 {
				vsLog(vsKBusy, sockCell, 0, 0, 0)
				continue
			}
			typ := conn.inflight[0]
			conn.inflight = conn.inflight[1:]
			if typ == int(typePolling) {
				consIdle = false
				handled++
				if *qb.tail-*qb.head == 0 {
					lateDelivery = true
				}
			}
			if typ != int(typePolling) {
				consIdle = false
				if *qb.tail-*qb.head > 0 {
					drainedEarly = true
				}
			}
			vsLog(vsKR, sockCell, int64(typ), 0, 0)
			if typ == int(typePolling) {
				handlePolling(B, pollHdr, nil)
			} else {
				handleStreamClose(B, header(otherEv), otherEv[headerSize:])
			}
			consIdle = true
		}
	}))
	// A's send loop (mirrors session.go send)
	threads = append(threads, vsSpawn(func() {
		for {
			vsPre()
			if stop {
				return
			}
			if len(A.sendCh) == 0 {
				vsLog(vsKBusy, sendChCell, 0, 0, 0)
				continue
			}
			ready := <-A.sendCh
			typ := int(header(ready.Body).MsgType())
			slHold, slBusy = typ, true
			if typ == int(typePolling) {
				slowPath = true
			} else {
				othersQueued--
			}
			vsLog(vsKR, sendChCell, int64(typ), 0, 0)
			for !vsCompareAndSwapUint32(&A.writing, 0, 1) {
				got := false
				slParked = true
				for !got {
					vsPre()
					if stop {
						return
					}
					select {
					case <-A.notifyContinueWriteCh:
						got = true
						slParked = false
						vsLog(vsKR, notifCell, 1, 0, 0)
					default:
						vsLog(vsKBusy, notifCell, 0, 0, 0)
					}
				}
			}
			if ready.Hdr != nil {
				A.writeEventData(ready.Hdr, ready.Err)
			}
			if ready.Body != nil {
				slWriting = true // from the write on the event is in flight
				A.writeEventData(ready.Body, ready.Err)
			}
			vsStoreUint32(&A.writing, 0)
			slBusy = false
		}
	}))
	consT, sendT := nprod, nprod+1

	enabled := func(t int) bool {
		switch {
		case t < nprod:
			return !threads[t].done
		case t == consT:
			return !consIdle || len(conn.inflight) > 0
		default:
			return slBusy || len(A.sendCh) > 0
		}
	}
	inner := mk(len(threads))
	choose := func(al []int, all int, last int, lastEv *vsEvent) int {
		var en []int
		for _, t := range al {
			if enabled(t) {
				en = append(en, t)
			}
		}
		if len(en) == 0 {
			return -1 // quiescent
		}
		if len(en) == 1 && en[0] == sendT && slParked && *(*uint32)(unsafe.Pointer(&A.writing)) == 0 && len(A.notifyContinueWriteCh) == 0 {
			return -1 // nobody is left to notify the send loop: it is parked for ever (judged below)
		}
		return inner(en, all, last, lastEv)
	}

	oracle := map[string]bool{}
	rawSize := func() int64 { return *qb.tail - *qb.head }
	marks := 0
	steps, _ := vsDrive(threads, choose, 6000, func(i int, rec vsStepRec) {
		sz := rawSize()
		np := 0
		for _, t := range conn.inflight {
			if t == int(typePolling) {
				np++
			}
		}
		fl := int64(*qb.workingFlag)
		idle := int64(0)
		if consIdle {
			idle = 1
		}
		c.Obs = append(c.Obs, [4]int64{sz, fl, int64(np), idle})
		if rec.Ev != nil && rec.Ev.Kind == vsKCAS && rec.Ev.Reg == 0 && rec.Ev.C == 1 {
			marks++
		}
		// C05_inv on the implementation, after every step
		if sz > 0 && consIdle {
			queued := len(A.sendCh) - othersQueued
			if slHold == int(typePolling) {
				queued++
			}
			mid := false
			for _, b := range inSend {
				mid = mid || b
			}
			if np == 0 && queued == 0 && !mid {
				oracle["stranded: non-empty queue, idle consumer, no polling event in flight or queued, no producer in the middle of a send"] = true
			}
		}
		if conn.polls > marks {
			oracle["more polling events written than markWorking succeeded"] = true
		}
		if sz < 0 {
			oracle["queue size negative"] = true
		}
	})
	quiescent := true
	for t := range threads {
		if enabled(t) {
			quiescent = false
		}
	}
	c.Quiescent = quiescent
	c.FinalSize = rawSize()
	parkedForever := false
	if !quiescent && slParked && *(*uint32)(unsafe.Pointer(&A.writing)) == 0 && len(A.notifyContinueWriteCh) == 0 {
		parkedForever = true
		for i := 0; i < nprod; i++ {
			if !threads[i].done {
				parkedForever = false // somebody may still hand the connection over
			}
		}
	}
	stop = true
	vsFinish(threads)
	vs.active = false

	// ---- property oracle (independent of the Coq model) ----
	if parkedForever {
		what := "another event"
		if slHold == int(typePolling) {
			what = "a polling event (a stranded wake-up)"
		}
		oracle["send loop parked for ever: it holds "+what+" taken from sendCh and waits on notifyContinueWriteCh although `writing` is free and no writer is left to notify it"] = true
	} else if !quiescent {
		oracle["run did not reach quiescence within the step bound"] = true
	} else if c.FinalSize != 0 {
		oracle["stranded at quiescence: all producers finished, every polling event delivered and handled, consumer idle, but recvQueue.size() != 0"] = true
	}
	if putFailed {
		oracle["harness: Flush or close returned an error although queue and buffers were sized for all elements"] = true
	}
	if int(A.stats.sendPollingEventCount) != marks {
		oracle["sendPollingEventCount differs from the number of successful markWorking"] = true
	}
	if int(B.stats.recvPollingEventCount) != handled {
		oracle["recvPollingEventCount differs from the number of polling events delivered"] = true
	}
	for k := range oracle {
		c.Oracle = append(c.Oracle, k)
	}
	c.Steps = steps
	c.Marks, c.Written, c.Handled = marks, conn.polls, handled

	// features
	casFail, recheck := false, false
	for _, s := range steps {
		if s.Ev == nil {
			continue
		}
		if s.Ev.Kind == vsKCAS && s.Ev.Reg == 0 && s.Ev.C == 0 {
			casFail = true
		}
		if s.Tid == consT && s.Ev.Kind == vsKW && s.Ev.Reg == 0 && s.Ev.A == 1 {
			recheck = true
		}
	}
	if casFail {
		c.Feat = append(c.Feat, "markWorking-lost")
	}
	if recheck {
		c.Feat = append(c.Feat, "recheck-rescued-element")
	}
	if slowPath {
		c.Feat = append(c.Feat, "slow-path")
	}
	if lateDelivery {
		c.Feat = append(c.Feat, "event-delivered-to-empty-queue")
	}
	if whileDraining {
		c.Feat = append(c.Feat, "event-written-while-draining")
	}
	if drainedEarly {
		c.Feat = append(c.Feat, "queue-emptied-in-front-of-a-socket-item")
	}
	return c
}

func c05Progs(r *vrand, nprod, maxOps int, otherPct int) [][]int {
	progs := make([][]int, nprod)
	for i := range progs {
		n := 1 + r.intn(maxOps)
		for k := 0; k < n; k++ {
			if r.chance(otherPct) {
				progs[i] = append(progs[i], c05OpOther)
			} else if r.chance(35) {
				progs[i] = append(progs[i], c05OpClose)
			} else {
				progs[i] = append(progs[i], c05OpSend)
			}
		}
	}
	return progs
}

// slow-path scenario driver: a directed prefix (hold `writing` through the send loop while a producer
// wakes the peer), then random.
func c05Directed(r *vrand, prefix []int) vsChooser {
	i := 0
	inner := vsRandomChooser(r, 60, 0)
	return func(al []int, all int, last int, lastEv *vsEvent) int {
		for i < len(prefix) {
			t := prefix[i]
			i++
			for _, a := range al {
				if a == t {
					return t
				}
			}
		}
		return inner(al, all, last, lastEv)
	}
}

// socket-item-overtakes-polling-event driver (the consumer's second drain entry point):
//   phase 0: producer 0 runs until its markWorking succeeded (element published, polling event not written);
//   phase 1: the other writer's stream-close event goes out (writer, send loop) and the consumer handles it:
//            consumeRecvQueue takes producer 0's element, the flag stays up;
//   phase 2: producer 0 writes its polling event; the consumer handles it on an EMPTY queue and has to clear the
//            flag all the same;
//   phase 3: the remaining producers (their puts need a working wake-up), randomly.
func c05Overtake(r *vrand, nprod, other int) vsChooser {
	phase := 0
	inner := vsRandomChooser(r, 70, 0)
	has := func(al []int, t int) bool {
		for _, a := range al {
			if a == t {
				return true
			}
		}
		return false
	}
	return func(al []int, all int, last int, lastEv *vsEvent) int {
		cons, send := nprod, nprod+1
		if phase == 0 {
			if last == 0 && lastEv != nil && lastEv.Kind == vsKCAS && lastEv.Reg == 0 && lastEv.C == 1 {
				phase = 1
			} else if has(al, 0) {
				return 0
			} else {
				phase = 3
			}
		}
		if phase == 1 {
			for _, t := range []int{other, send, cons} {
				if has(al, t) {
					return t
				}
			}
			phase = 2
		}
		if phase == 2 {
			for _, t := range []int{0, cons} {
				if has(al, t) {
					return t
				}
			}
			phase = 3
		}
		return inner(al, all, last, lastEv)
	}
}

func TestVerif_C05(t *testing.T) {
	seed := uint64(venvInt("VERIF_SEED", 1))
	n := venvInt("VERIF_N", 300)
	o := vopenOut(t)
	defer o.close()
	r := newVrand(seed)
	id := 0
	for ; id < n; id++ {
		nprod := 1 + r.intn(3)
		if r.chance(10) {
			nprod = 4
		}
		progs := c05Progs(r, nprod, 3, 15)
		var c c05Case
		if id%10 == 7 {
			// a socket item overtakes a published-but-unwritten polling event, then more puts
			progs[0][0] = c05OpSend
			if len(progs[0]) < 2 {
				progs[0] = append(progs[0], c05OpSend) // a put after the empty-queue polling round
			}
			for i := 1; i < len(progs); i++ {
				for k := range progs[i] {
					if progs[i][k] == c05OpOther {
						progs[i][k] = c05OpSend
					}
				}
			}
			progs = append(progs, []int{c05OpOther})
			np := len(progs)
			c = c05Run(id, "directed-socket-item-overtakes-poll", progs, func(int) vsChooser { return c05Overtake(r, np, np-1) })
			o.emit(c)
			continue
		}
		switch id % 5 {
		case 0:
			c = c05Run(id, "uniform", progs, func(int) vsChooser { return vsRandomChooser(r, 0, 3) })
		case 1:
			c = c05Run(id, "sticky", progs, func(int) vsChooser { return vsRandomChooser(r, 80, 2) })
		case 2:
			// another writer occupies the connection first: exercises the slow path
			progs = append(progs, []int{c05OpOther})
			np := len(progs)
			pre := []int{np - 1, np + 1, np + 1} // other: enqueue; send loop: take it, CAS writing
			for k := 0; k < 12+r.intn(6); k++ {
				pre = append(pre, 0) // producer 0 runs into the busy `writing`
			}
			c = c05Run(id, "directed-slow-path", progs, func(int) vsChooser { return c05Directed(r, pre) })
		default:
			x := r.intn(nprod + 2)
			k := r.intn(30)
			c = c05Run(id, fmt.Sprintf("preempt(t%d@%d)", x, k), progs, func(int) vsChooser { return vsPreemptChooser(r, x, k) })
		}
		o.emit(c)
	}
	// systematic part: every single-preemption point of every thread for small fixed configurations
	sysN := 0
	for ci, progs := range [][][]int{{{0, 2}, {0}}, {{2}, {0}, {0}}, {{0, 0}}} {
		nthreads := len(progs) + 1 // producers + consumer
		for x := 0; x < nthreads; x++ {
			for k := 0; k <= 34; k++ {
				c := c05Run(id, fmt.Sprintf("systematic-preempt(cfg%d,t%d@%d)", ci, x, k), progs,
					func(int) vsChooser { return vsPreemptChooser(newVrand(seed+uint64(id)), x, k) })
				o.emit(c)
				id++
				sysN++
			}
		}
	}
	t.Logf("emitted %d cases (%d systematic)", id, sysN)
}
