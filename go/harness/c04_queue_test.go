//go:build verif

package shmipc

// C04 correspondence + oracle harness (mechanism S): the REAL queue.put / queue.pop (instrumented
// copies of /repo's current queue.go) run under schedules chosen here; every shared access, every
// put/pop result and the independent property oracle are written to VERIF_OUT, one case per line.

import (
	"fmt"
	"testing"
	"unsafe"
)

type c04Case struct {
	ID      int          `json:"id"`
	Strat   string       `json:"strat"`
	Cap     int          `json:"cap"`
	Progs   [][][3]int64 `json:"progs"`
	NPop    int          `json:"npop"`
	Steps   []vsStepRec  `json:"steps"`
	Results [][]bool     `json:"results"`
	Out     []*[3]int64  `json:"out"` // nil = errQueueEmpty
	Oracle  []string     `json:"oracle"`
	Feat    []string     `json:"feat"`
}

type c04Op struct {
	start, end int // step indices (inclusive) during which the op ran
	elem       [3]int64
	ok         bool
}

func c04Run(id int, strat string, cap int, progs [][][3]int64, npop int, mk func(nthreads int) vsChooser) c04Case {
	c := c04Case{ID: id, Strat: strat, Cap: cap, Progs: progs, NPop: npop}
	vsReset()
	data := make([]byte, queueHeaderLength+cap*queueElementLen+8)
	q := createQueueFromBytes(data[:queueHeaderLength+cap*queueElementLen], uint32(cap))
	vsAddRegion(unsafe.Pointer(&data[0]), queueHeaderLength+cap*queueElementLen)
	vs.active = true
	stepNo := 0
	results := make([][]bool, len(progs))
	ops := make([][]c04Op, len(progs))
	var threads []*vsThread
	for i := range progs {
		i := i
		threads = append(threads, vsSpawn(func() {
			for _, e := range progs[i] {
				op := c04Op{start: stepNo, elem: e}
				err := q.put(queueElement{seqID: uint32(e[0]), offsetInShmBuf: uint32(e[1]), status: uint32(e[2])})
				op.end = stepNo
				op.ok = err == nil
				results[i] = append(results[i], err == nil)
				ops[i] = append(ops[i], op)
			}
		}))
	}
	var out []*[3]int64
	type popRec struct {
		start, end int
		e          *[3]int64
	}
	var pops []popRec
	threads = append(threads, vsSpawn(func() {
		for k := 0; k < npop; k++ {
			st := stepNo
			e, err := q.pop()
			if err != nil {
				out = append(out, nil)
				pops = append(pops, popRec{st, stepNo, nil})
			} else {
				v := [3]int64{int64(e.seqID), int64(e.offsetInShmBuf), int64(e.status)}
				out = append(out, &v)
				pops = append(pops, popRec{st, stepNo, &v})
			}
		}
	}))
	var sizes []int64 // queue size after each step (raw memory, not instrumented)
	rawSize := func() int64 { return *q.tail - *q.head }
	oracle := map[string]bool{}
	steps, finished := vsDrive(threads, mk(len(threads)), 4000, func(i int, rec vsStepRec) {
		stepNo = i + 1
		sz := rawSize()
		sizes = append(sizes, sz)
		if sz < 0 || sz > int64(cap) {
			oracle[fmt.Sprintf("bound: size %d outside [0,%d]", sz, cap)] = true
		}
	})
	if !finished {
		vsFinish(threads)
		oracle["run did not finish within the step bound"] = true
	}
	vs.active = false
	// drain what is left (plain, uncontrolled) so that exactly-once can be judged
	var drained []*[3]int64
	for {
		e, err := q.pop()
		if err != nil {
			break
		}
		v := [3]int64{int64(e.seqID), int64(e.offsetInShmBuf), int64(e.status)}
		drained = append(drained, &v)
		if len(drained) > 64 {
			oracle["drain does not terminate"] = true
			break
		}
	}
	// ---- property oracle (independent of the Coq model) ----
	type key [3]int64
	owner := map[key][2]int{} // elem -> (producer, op index); elements are unique by construction
	for i := range ops {
		for k, op := range ops[i] {
			owner[key(op.elem)] = [2]int{i, k}
		}
	}
	seen := map[key]bool{}
	lastIdx := make([]int, len(progs))
	for i := range lastIdx {
		lastIdx[i] = -1
	}
	var order []key
	all := append([]*[3]int64{}, out...)
	all = append(all, drained...)
	for _, e := range all {
		if e == nil {
			continue
		}
		k := key(*e)
		o, ok := owner[k]
		if !ok {
			oracle[fmt.Sprintf("intact: popped element %v was never enqueued (torn or invented)", *e)] = true
			continue
		}
		if !ops[o[0]][o[1]].ok {
			oracle[fmt.Sprintf("popped element %v whose put reported full", *e)] = true
		}
		if seen[k] {
			oracle[fmt.Sprintf("exactly-once: element %v returned twice", *e)] = true
		}
		seen[k] = true
		if o[1] <= lastIdx[o[0]] {
			oracle[fmt.Sprintf("order: producer %d's elements out of order", o[0])] = true
		}
		lastIdx[o[0]] = o[1]
		order = append(order, k)
	}
	for i := range ops {
		for _, op := range ops[i] {
			if op.ok && !seen[key(op.elem)] {
				oracle[fmt.Sprintf("exactly-once: enqueued element %v never returned", op.elem)] = true
			}
		}
	}
	// non-overlapping puts come out in order
	pos := map[key]int{}
	for i, k := range order {
		pos[k] = i
	}
	for i := range ops {
		for _, a := range ops[i] {
			for j := range ops {
				for _, b := range ops[j] {
					if a.ok && b.ok && a.end < b.start {
						pa, oka := pos[key(a.elem)]
						pb, okb := pos[key(b.elem)]
						if oka && okb && pa > pb {
							oracle[fmt.Sprintf("order: put %v finished before put %v started but came out later", a.elem, b.elem)] = true
						}
					}
				}
			}
		}
	}
	// honest full: while the put ran the queue was full at some instant
	for i := range ops {
		for _, op := range ops[i] {
			if !op.ok {
				full := false
				for s := op.start - 1; s < op.end && s < len(sizes); s++ {
					sz := int64(0)
					if s >= 0 {
						sz = sizes[s]
					}
					if sz >= int64(cap) {
						full = true
					}
				}
				if !full {
					oracle[fmt.Sprintf("honest-full: put %v reported full but the queue never held %d elements meanwhile", op.elem, cap)] = true
				}
			}
		}
	}
	// a pop reports empty only if the queue was empty at some instant while it ran
	for _, p := range pops {
		if p.e == nil {
			empty := false
			for s := p.start - 1; s < p.end && s < len(sizes); s++ {
				sz := int64(0)
				if s >= 0 {
					sz = sizes[s]
				}
				if sz <= 0 {
					empty = true
				}
			}
			if !empty {
				oracle["pop reported empty although the queue was never empty meanwhile"] = true
			}
		}
	}
	for k := range oracle {
		c.Oracle = append(c.Oracle, k)
	}
	c.Steps = steps
	c.Results = results
	c.Out = out
	// features (for the evidence: what makes a case non-trivial)
	total := 0
	for _, p := range progs {
		total += len(p)
	}
	if total > cap {
		c.Feat = append(c.Feat, "wrap")
	}
	for i := range results {
		for _, ok := range results[i] {
			if !ok {
				c.Feat = append(c.Feat, "full")
			}
		}
	}
	for _, s := range steps {
		if s.Ev != nil && s.Ev.Kind == vsKBusy {
			c.Feat = append(c.Feat, "lock-contention")
			break
		}
	}
	sw := 0
	for i := 1; i < len(steps); i++ {
		if steps[i].Tid != steps[i-1].Tid {
			sw++
		}
	}
	if sw >= 3 {
		c.Feat = append(c.Feat, "interleaved")
	}
	return c
}

func c04Progs(r *vrand, nprod, maxOps int) [][][3]int64 {
	progs := make([][][3]int64, nprod)
	tag := int64(1)
	for i := range progs {
		n := 1 + r.intn(maxOps)
		for k := 0; k < n; k++ {
			// unique, field-distinct values; occasionally large 32-bit patterns
			base := tag * 16
			if r.chance(15) {
				base += 0xF0000000
			}
			progs[i] = append(progs[i], [3]int64{base + 1, base + 2, base + 3})
			tag++
		}
	}
	return progs
}

func TestVerif_C04(t *testing.T) {
	seed := uint64(venvInt("VERIF_SEED", 1))
	n := venvInt("VERIF_N", 300)
	o := vopenOut(t)
	defer o.close()
	r := newVrand(seed)
	caps := []int{1, 1, 2, 3, 3, 4, 5, 6, 7, 8}
	id := 0
	for ; id < n; id++ {
		cap := caps[r.intn(len(caps))]
		nprod := 1 + r.intn(3)
		progs := c04Progs(r, nprod, 3)
		total := 0
		for _, p := range progs {
			total += len(p)
		}
		npop := r.intn(total + 2)
		var c c04Case
		switch id % 4 {
		case 0:
			c = c04Run(id, "uniform", cap, progs, npop, func(int) vsChooser { return vsRandomChooser(r, 0, 3) })
		case 1:
			c = c04Run(id, "sticky", cap, progs, npop, func(int) vsChooser { return vsRandomChooser(r, 80, 2) })
		default:
			x := r.intn(nprod + 1)
			k := r.intn(14)
			c = c04Run(id, fmt.Sprintf("preempt(t%d@%d)", x, k), cap, progs, npop, func(int) vsChooser { return vsPreemptChooser(r, x, k) })
		}
		o.emit(c)
	}
	// systematic part: every single-preemption point of every thread for small fixed configurations
	sysN := 0
	for _, cap := range []int{1, 2, 3} {
		progs := [][][3]int64{{{17, 18, 19}, {33, 34, 35}}, {{49, 50, 51}, {65, 66, 67}}}
		for x := 0; x < 3; x++ {
			for k := 0; k <= 17; k++ {
				c := c04Run(id, fmt.Sprintf("systematic-preempt(cap%d,t%d@%d)", cap, x, k), cap, progs, 4,
					func(int) vsChooser { return vsPreemptChooser(newVrand(seed+uint64(id)), x, k) })
				o.emit(c)
				id++
				sysN++
			}
		}
	}
	t.Logf("emitted %d cases (%d systematic)", id, sysN)
}
