//go:build verif

package shmipc

// C15, PutBack is not atomic.  Two scenarios on a REAL SessionManager whose pool is otherwise empty:
//
//  * c15PutRace (real concurrency, part of TestVerif_C15): caller A has read a response that spans many
//    slices with small ReadBytes (every slice is parked in the pinned list), then calls PutBack while caller B
//    spins on GetStream.  ORACLE at every hand-out to B: the stream is not one that PutBack is still working
//    on (pinned list released, receive/send buffer empty).
//  * TestVerif_C15Sched (mechanism S): the same PutBack and one GetStream as controlled threads on the real
//    code (buffer_manager.go instrumented by go/verisched: every access of the free lists is a step;
//    streamPool's mutex turned into a scheduling point by props/C15.py), every schedule
//    "A k steps | B completely | A rest".  ORACLE: B never receives A's stream before A's PutBack has
//    finished; the position of the pool lock among A's accesses (after the last recycle access = push is the
//    LAST step, as Model/Pool.v's PutPrepare; PutPush) is reported for the comparison with the model.

import (
	"fmt"
	"sync"
	"sync/atomic"
	"testing"
	"time"
)

// caller A: get a stream, request, a response of nslices slices, read it in small pieces -> pinned slices
func c15PinnedStream(w *c15World, nslices int) (*Stream, string) {
	s, err := w.sm.GetStream()
	if err != nil {
		return nil, "GetStream: " + err.Error()
	}
	s.BufferWriter().WriteBytes(make([]byte, 16))
	if err := s.Flush(false); err != nil {
		return nil, "flush: " + err.Error()
	}
	var ss *Stream
	if !c15Wait(func() bool {
		srv := w.serverOf(s.session)
		if srv == nil {
			return false
		}
		ss = srv.getStreamById(s.id)
		return ss != nil && (c15PendLen(ss) > 0 || ss.recvBuf.Len() > 0)
	}, c15WaitBound) {
		return nil, "the request did not reach the server within the bound"
	}
	w.srvDrain(ss)
	total := nslices*4096 - 100
	ss.BufferWriter().WriteBytes(make([]byte, total))
	if err := ss.Flush(false); err != nil {
		return nil, "server flush: " + err.Error()
	}
	if !c15Wait(func() bool { return c15PendLen(s) > 0 }, c15WaitBound) {
		return nil, "the response did not reach the client within the bound"
	}
	for got := 0; got < total; {
		k := 256
		if total-got < k {
			k = total - got
		}
		if _, err := s.BufferReader().ReadBytes(k); err != nil {
			return nil, "ReadBytes: " + err.Error()
		}
		got += k
	}
	return s, ""
}

func c15Dirty(s *Stream) (bool, string) {
	p, r, sd := s.recvBuf.pinnedList.size(), s.recvBuf.Len(), s.sendBuf.Len()
	return p != 0 || r != 0 || sd != 0, fmt.Sprintf("pinned slices=%d recvBuf.Len()=%d sendBuf.Len()=%d", p, r, sd)
}

// real concurrency: PutBack of a stream with many pinned slices against a spinning GetStream
func c15PutRace(w *c15World, c *c15Case) {
	const rounds = 25
	handed := 0
	for round := 0; round < rounds && w.fatal == ""; round++ {
		s, msg := c15PinnedStream(w, 24)
		if msg != "" {
			w.fatal = "put race: " + msg
			return
		}
		var inPut, done int32
		var got *Stream
		var detail string
		var wg sync.WaitGroup
		wg.Add(1)
		go func() {
			defer wg.Done()
			defer func() {
				if e := recover(); e != nil {
					detail = fmt.Sprintf("panic in the getter: %v", e)
				}
			}()
			for atomic.LoadInt32(&done) == 0 {
				t, err := w.sm.GetStream()
				if err != nil {
					continue
				}
				if t == s {
					if dirty, d := c15Dirty(t); dirty {
						detail = fmt.Sprintf("%s, PutBack still running=%v", d, atomic.LoadInt32(&inPut) == 1)
					}
					got = t
					return
				}
				t.Close()
			}
		}()
		atomic.StoreInt32(&inPut, 1)
		w.sm.PutBack(s)
		atomic.StoreInt32(&inPut, 0)
		atomic.StoreInt32(&done, 1)
		wg.Wait()
		if detail != "" {
			w.fail("C15:stream-handed-out-while-its-PutBack-is-still-running", fmt.Sprintf("round %d: GetStream returned the stream that another goroutine was still putting back (%s): it carries the earlier user's read slices and is worked on by two goroutines", round, detail))
		}
		if got != nil {
			handed++
			w.sm.PutBack(got)
		}
	}
	c.Note = fmt.Sprintf("rounds=%d handed_to_the_spinning_getter=%d", rounds, handed)
	w.feat["put-race"] = true
}

// ---- mechanism S ----------------------------------------------------------------------------------

type c15SchedCase struct {
	ID       int      `json:"id"`
	K        int      `json:"k"`
	Schedule []int    `json:"schedule"` // 0 = caller A inside PutBack, 1 = caller B inside GetStream
	AKinds   []int    `json:"a_kinds"`  // kinds of A's accesses in order (4 lock, 6 unlock, others = free-list accesses)
	GotSame  bool     `json:"got_same"`
	ADone    bool     `json:"a_done_when_b_returned"`
	State    string   `json:"state_at_handout"`
	Oracle   []string `json:"oracle"`
	Note     string   `json:"note,omitempty"`
}

func c15SchedOne(w *c15World, id, k int) (c c15SchedCase, steps int) {
	c = c15SchedCase{ID: id, K: k}
	s, msg := c15PinnedStream(w, 6)
	if msg != "" {
		c.Note = "HARNESS: " + msg
		return
	}
	time.Sleep(time.Millisecond) // the event loops are idle now: nobody else touches the free lists
	vsReset()
	vs.active = true
	var got *Stream
	var gerr error
	aDone := false
	ta := vsSpawn(func() { vsPre(); w.sm.PutBack(s); aDone = true })
	tb := vsSpawn(func() {
		vsPre()
		got, gerr = w.sm.GetStream()
		c.ADone = aDone
		if got == s {
			_, c.State = c15Dirty(got)
		}
	})
	th := []*vsThread{ta, tb}
	step := func(i int) {
		n := len(vs.log)
		vsStep(th[i])
		c.Schedule = append(c.Schedule, i)
		if len(vs.log) > n && vs.log[len(vs.log)-1].Kind == vsKBusy && !th[1-i].done {
			vsStep(th[1-i])
			c.Schedule = append(c.Schedule, 1-i)
		}
	}
	for i := 0; i < k && !ta.done; i++ {
		step(0)
	}
	for guard := 0; !tb.done && guard < 100000; guard++ {
		step(1)
	}
	for guard := 0; !ta.done && guard < 100000; guard++ {
		step(0)
	}
	vs.active = false
	for _, ev := range vs.log {
		if ev.Tid == 0 && ev.Kind != vsKBusy {
			c.AKinds = append(c.AKinds, ev.Kind)
			steps++
		}
	}
	if gerr != nil {
		c.Note = "HARNESS: GetStream failed: " + gerr.Error()
		return
	}
	c.GotSame = got == s
	if c.GotSame && !c.ADone {
		c.Oracle = append(c.Oracle, fmt.Sprintf("C15:stream-handed-out-while-its-PutBack-is-still-running|GetStream returned the stream that caller A was still putting back: A had performed %d of its steps, B then ran GetStream to completion and received A's stream (%s); A continued working on it afterwards (schedule, 0 = PutBack / 1 = GetStream: %v)", k, c.State, c.Schedule))
	}
	// clean up for the next schedule: B gives its stream back (closing a fresh one keeps the pool at A's stream)
	if got != nil {
		if got == s {
			w.sm.PutBack(got)
		} else {
			got.Close()
		}
	}
	return
}

func TestVerif_C15Sched(t *testing.T) {
	out := vopenOut(t)
	defer out.close()
	w, err := c15NewWorld(3900, 1)
	if err != nil {
		out.emit(c15SchedCase{Note: "HARNESS: setup failed: " + err.Error()})
		return
	}
	defer w.close()
	probe, n := c15SchedOne(w, 0, 1<<20) // A alone first: how many steps does PutBack have
	out.emit(probe)
	stride := 1
	if m := venvInt("VERIF_N", 0); m > 0 && n > m {
		stride = (n + m - 1) / m
	}
	id := 1
	for k := 0; k <= n+1; k += stride {
		c, _ := c15SchedOne(w, id, k)
		out.emit(c)
		id++
	}
}
