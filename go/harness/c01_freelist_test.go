//go:build verif

package shmipc

// C01 / C02 correspondence + oracle harness (mechanism S): the REAL bufferList.pop / push,
// bufferSlice.update and bufferManager.recycleBuffers (instrumented copies of /repo's current
// buffer_manager.go and buffer_slice.go) run under schedules chosen here.  Every shared access,
// every op result and the independent property oracles are written to VERIF_OUT.

import (
	"encoding/json"
	"fmt"
	"os"
	"testing"
	"unsafe"
)

type c01Op struct {
	K    string `json:"k"` // alloc | freeOldest | freeNewest | update | freeChain
	Sz   int    `json:"sz,omitempty"`
	Link bool   `json:"link,omitempty"`
}

type c01Case struct {
	ID     int         `json:"id"`
	Strat  string      `json:"strat"`
	N      int         `json:"n"`
	Cpb    int         `json:"cpb"`
	Base   int         `json:"base"`
	Len    int         `json:"len"`
	Progs  [][]c01Op   `json:"progs"`
	Steps  []vsStepRec `json:"steps"`
	Res    [][]int64   `json:"res"` // per thread per op: alloc -> offset or -1 ; others 0 ; panic -> -2
	Oracle []string    `json:"oracle"`
	Feat   []string    `json:"feat"`
	Final  []int64     `json:"final"` // size, head, tail, counter at the end of the schedule
}

// set by c01Run for scripted choosers: operations completed by thread t; offset of the list's tail word
var (
	c01Progress func(t int) int
	c01TailCell int64
	c01SizeCell int64
)

// one phase of a scripted schedule: run thread T until it has completed Ops operations, or — with
// TailCAS — until its last step was a successful CAS on the list's tail word (a pusher that has
// published its buffer as the new tail but has not linked it yet), or it is done.
type c01Phase struct {
	T       int
	Ops     int
	TailCAS bool
	SizeAdd bool // stop right after T's atomic add of +1 to the free count (a push completed; with Ops>0: the op is still running)
}

// c01Script runs the phases in order, then every remaining thread to completion (lowest id first).
func c01Script(phases []c01Phase) vsChooser {
	k := 0
	return func(al []int, all int, last int, lastEv *vsEvent) int {
		alive := map[int]bool{}
		for _, a := range al {
			alive[a] = true
		}
		for k < len(phases) {
			ph := phases[k]
			stop := !alive[ph.T] || (!ph.TailCAS && !ph.SizeAdd && c01Progress(ph.T) >= ph.Ops)
			if ph.SizeAdd && last == ph.T && lastEv != nil && lastEv.Kind == vsKFAA && lastEv.Off == c01SizeCell && lastEv.A == 1 {
				stop = true
			}
			if ph.SizeAdd && ph.Ops > 0 && c01Progress(ph.T) >= ph.Ops {
				stop = true
			}
			if ph.TailCAS && last == ph.T && lastEv != nil && lastEv.Kind == vsKCAS && lastEv.Off == c01TailCell && lastEv.C == 1 {
				stop = true
			}
			if ph.TailCAS && ph.Ops > 0 && c01Progress(ph.T) >= ph.Ops {
				stop = true // the operation ended without a tail CAS (nothing held): do not run on
			}
			if stop {
				k++
				last = -1
				continue
			}
			return ph.T
		}
		return al[0]
	}
}

const c01ListOff = 8 // bufferManagerHeaderSize: the list sits where a real manager puts its first list

type c01World struct {
	mem  []byte
	l    *bufferList
	bm   *bufferManager
	n    int
	cpb  int
	base int
}

// slack = bytes of the mapping behind the last slot (0: the region ends exactly at the end of the mapping,
// the boundary case of readBufferSlice's end check)
func c01New(n, cpb, slack int) *c01World {
	stride := cpb + bufferHeaderSize
	mem := make([]byte, c01ListOff+bufferListHeaderSize+n*stride+slack)
	l, err := createFreeBufferList(uint32(n), uint32(cpb), mem, c01ListOff)
	if err != nil {
		panic(err)
	}
	bm := &bufferManager{lists: []*bufferList{l}, mem: mem, minSliceSize: uint32(cpb), maxSliceSize: uint32(cpb)}
	return &c01World{mem, l, bm, n, cpb, int(l.bufferRegionOffsetInShm)}
}

func (w *c01World) rawFlag(o int) byte { return w.l.bufferRegion[o+bufferFlagOffset] }
func (w *c01World) rawNext(o int) int {
	return int(*(*uint32)(unsafe.Pointer(&w.l.bufferRegion[o+nextBufferOffset])))
}
func (w *c01World) validOff(o int) bool { return o >= 0 && o+bufferHeaderSize <= len(w.l.bufferRegion) }

// message chain starting at region-relative offset o as recycleBuffers would follow it (raw reads)
func (w *c01World) chainFrom(o int) []int {
	var c []int
	for i := 0; i <= w.n+2; i++ {
		if !w.validOff(o) {
			break
		}
		c = append(c, o)
		if w.rawFlag(o)&hasNextBufferFlag == 0 {
			break
		}
		o = w.rawNext(o) - w.base // message chains store absolute offsets
	}
	return c
}

func c01Run(id int, strat string, n, cpb int, progs [][]c01Op, mk func(nthreads int) vsChooser, fixed []int) c01Case {
	c := c01Case{ID: id, Strat: strat, N: n, Cpb: cpb, Progs: progs}
	vsReset()
	w := c01New(n, cpb, []int{0, 4, 0, 25}[id%4])
	c.Base, c.Len = w.base, len(w.mem)
	vsAddRegion(unsafe.Pointer(&w.mem[0]), len(w.mem))
	vs.active = true
	stride := cpb + bufferHeaderSize
	oracle := map[string]bool{}
	owner := map[int]int{} // region-relative offset -> tid holding it (from Alloc completion to Free start)
	res := make([][]int64, len(progs))
	held := make([][]*bufferSlice, len(progs))
	var threads []*vsThread
	c01Progress = func(t int) int { return len(res[t]) }
	c01TailCell = int64(uintptr(unsafe.Pointer(w.l.tail)) - uintptr(unsafe.Pointer(&w.mem[0])))
	c01SizeCell = int64(uintptr(unsafe.Pointer(w.l.size)) - uintptr(unsafe.Pointer(&w.mem[0])))
	pattern := func(tid int, off int) byte { return byte(17*tid + off/stride + 1) }
	checkPayload := func(tid int, s *bufferSlice) {
		off := int(s.offsetInShm) - w.base
		for _, b := range s.data[:minInt(len(s.data), cpb)] {
			if b != pattern(tid, off) {
				oracle["payload of a held buffer was altered by somebody else"] = true
				break
			}
		}
	}
	for i := range progs {
		i := i
		threads = append(threads, vsSpawn(func() {
			for _, op := range progs[i] {
				if op.K != "alloc" && len(held[i]) == 0 {
					continue // cannot start: dropped without a step (the model's `normalize`)
				}
				r := int64(0)
				func() {
					defer func() {
						if e := recover(); e != nil {
							r = -2
						}
					}()
					switch op.K {
					case "alloc":
						s, err := w.l.pop()
						if err != nil {
							r = -1
							return
						}
						off := int(s.offsetInShm) - w.base
						r = int64(off)
						if off < 0 || off >= n*stride || off%stride != 0 {
							oracle["allocated buffer is not at a slot boundary inside its region"] = true
						}
						if int(s.cap) != cpb || len(s.data) != cpb || !s.isFromShm {
							oracle["allocated buffer does not have the advertised capacity"] = true
						}
						if prev, dup := owner[off]; dup {
							oracle[fmt.Sprintf("double ownership: buffer handed out while still held (holders t%d,t%d)", prev, i)] = true
						}
						owner[off] = i
						for k := range s.data {
							s.data[k] = pattern(i, off)
						}
						held[i] = append(held[i], s)
					case "freeOldest", "freeNewest":
						idx := 0
						if op.K == "freeNewest" {
							idx = len(held[i]) - 1
						}
						s := held[i][idx]
						held[i] = append(held[i][:idx:idx], held[i][idx+1:]...)
						checkPayload(i, s)
						off := int(s.offsetInShm) - w.base
						if owner[off] == i {
							delete(owner, off)
						}
						w.l.push(s)
					case "update":
						s := held[i][0]
						s.start = 0
						s.readIndex = 0
						s.writeIndex = op.Sz
						s.nextSlice = nil
						if op.Link && len(held[i]) > 1 {
							s.nextSlice = held[i][1]
						}
						s.update()
					case "freeChain":
						s := held[i][0]
						chain := w.chainFrom(int(s.offsetInShm) - w.base)
						// relinquish what the chain names (the holder gives the whole message back)
						inChain := map[int]bool{}
						for _, o := range chain {
							inChain[o] = true
						}
						mark := len(vs.log)
						heldOff := make([]int, len(held[i])) // recycleBuffer zeroes the slice objects it returns to the pool
						for k, hs := range held[i] {
							heldOff[k] = int(hs.offsetInShm) - w.base
						}
						for _, hs := range held[i] {
							if inChain[int(hs.offsetInShm)-w.base] {
								checkPayload(i, hs)
							}
						}
						for _, o := range chain {
							if owner[o] == i {
								delete(owner, o)
							}
						}
						w.bm.recycleBuffers(s)
						// drop from held exactly the buffers this op pushed (successful tail CAS by this thread)
						pushed := map[int]bool{}
						tailCell := int64(uintptr(unsafe.Pointer(w.l.tail)) - uintptr(unsafe.Pointer(&w.mem[0])))
						for _, ev := range vs.log[mark:] {
							if ev.Tid == i && ev.Kind == vsKCAS && ev.Off == tailCell && ev.C == 1 {
								pushed[int(ev.B)] = true
							}
						}
						var keep []*bufferSlice
						for k, hs := range held[i] {
							if !pushed[heldOff[k]] {
								keep = append(keep, hs)
							}
						}
						held[i] = keep
						// C02: recycling a chain gives back EVERY buffer of the chain (all of them were held by this thread)
						for _, o := range chain {
							mine := false
							for _, ho := range heldOff {
								if ho == o {
									mine = true
								}
							}
							if mine && !pushed[o] {
								oracle["recycling a message chain did not return every buffer of the chain"] = true
							}
						}
					}
				}()
				res[i] = append(res[i], r)
				if r == -2 {
					return
				}
			}
		}))
	}
	// per-step oracles
	slotOfCell := func(off int64) (int, bool) {
		o := int(off) - w.base
		if o < 0 || o >= n*stride {
			return 0, false
		}
		s := o / stride * stride
		if o-s < bufferHeaderSize {
			return s, true
		}
		return 0, false
	}
	after := func(i int, rec vsStepRec) {
		if rec.Ev != nil && rec.Ev.Kind == vsKW && rec.Ev.Reg == 0 {
			if s, ok := slotOfCell(rec.Ev.Off); ok {
				if h, owned := owner[s]; owned && h != rec.Ev.Tid {
					oracle["header of a held buffer written by a thread that does not hold it"] = true
				}
			}
		}
		size := int(*w.l.size)
		if size+len(owner) > n {
			oracle["free count plus buffers held exceeds the capacity"] = true
		}
	}
	var steps []vsStepRec
	finished := false
	if fixed != nil {
		// explicit schedule; an entry 1000+t means "run thread t until it has finished"
		k := 0
		steps, finished = vsDrive(threads, func(al []int, all, last int, lastEv *vsEvent) int {
			for k < len(fixed) {
				e := fixed[k]
				if e >= 1000 {
					if e-1000 < len(threads) && !threads[e-1000].done {
						return e - 1000
					}
					k++
					continue
				}
				k++
				return e
			}
			return -1
		}, 200000, after)
		finished = true
	} else {
		steps, finished = vsDrive(threads, mk(len(threads)), 6000, after)
	}
	c.Final = []int64{int64(*w.l.size), int64(*w.l.head), int64(*w.l.tail), int64(*w.l.counter)}
	c.Res = make([][]int64, len(res)) // results of the operations completed within the recorded schedule
	for i := range res {
		c.Res[i] = append([]int64{}, res[i]...)
	}
	vs.active = false
	if !finished {
		oracle["run did not finish within the step bound"] = true
	}
	vsFinishPlain(threads)
	// quiescence oracle (C02): give back everything still held, then the list must be whole again
	if len(vsAlive(threads)) == 0 {
		panicked := false
		for i := range held {
			for _, r := range res[i] {
				if r == -2 {
					panicked = true
				}
			}
		}
		func() {
			defer func() {
				if e := recover(); e != nil {
					oracle["panic while returning buffers at quiescence"] = true
				}
			}()
			seen := map[int]bool{}
			for i := range held {
				for _, s := range held[i] {
					off := int(s.offsetInShm) - w.base
					if seen[off] {
						continue // doubly owned: already reported; do not push twice
					}
					seen[off] = true
					w.l.push(s)
				}
			}
		}()
		if !panicked {
			if int(*w.l.size) != n {
				oracle[fmt.Sprintf("at quiescence the free count is not the capacity")] = true
			}
			visited := map[int]bool{}
			o := int(*w.l.head)
			okWalk := true
			last := -1
			for k := 0; k < n+1; k++ {
				if !w.validOff(o) || o%stride != 0 || visited[o] {
					okWalk = false
					break
				}
				visited[o] = true
				last = o
				if w.rawFlag(o)&hasNextBufferFlag == 0 {
					break
				}
				o = w.rawNext(o)
			}
			if !okWalk || len(visited) != n || last != int(*w.l.tail) {
				oracle["at quiescence the free chain does not visit every slot exactly once ending at the tail"] = true
			}
		} else {
			oracle["a list operation panicked"] = true
		}
	}
	for k := range oracle {
		c.Oracle = append(c.Oracle, k)
	}
	c.Steps = steps
	// features
	fe := map[string]bool{}
	for _, s := range steps {
		if s.Ev != nil && s.Ev.Kind == vsKCAS && s.Ev.C == 0 {
			fe["failed-cas"] = true
		}
	}
	for i := range res {
		for k, r := range res[i] {
			if r == -1 {
				fe["alloc-failed"] = true
			}
			_ = k
		}
	}
	for _, p := range progs {
		for _, op := range p {
			if op.K == "freeChain" {
				fe["chain"] = true
			}
			if op.K == "update" && op.Link {
				fe["link"] = true
			}
		}
	}
	if len(steps) > 600 {
		fe["retry-bound"] = true
	}
	sw := 0
	for i := 1; i < len(steps); i++ {
		if steps[i].Tid != steps[i-1].Tid {
			sw++
		}
	}
	if sw >= 3 {
		fe["interleaved"] = true
	}
	for k := range fe {
		c.Feat = append(c.Feat, k)
	}
	return c
}

// run the remaining threads to completion without recording (plain, still cooperative)
func vsFinishPlain(threads []*vsThread) {
	vs.active = true
	vsFinish(threads)
	vs.active = false
}

// Program discipline (what linkedBuffer does, and what the theorems' programs assume): once a buffer has
// been linked to its successor (update with link), the buffers of that message are given back only through
// recycleBuffers (freeChain) — freeing a linked buffer on its own and then recycling the chain would free
// it twice, which is a misuse of the allocator, not a defect of it.
func c01Progs(r *vrand, nthr, maxOps int) [][]c01Op {
	progs := make([][]c01Op, nthr)
	for i := range progs {
		k := 1 + r.intn(maxOps)
		linked := false
		for j := 0; j < k; j++ {
			x := r.intn(100)
			switch {
			case x < 50 || j == 0:
				progs[i] = append(progs[i], c01Op{K: "alloc"})
			case x < 68:
				// also when linked: the head of a chain is given back alone, with its has-next flag still
				// set, while the rest is held (what a reader does slice by slice)
				progs[i] = append(progs[i], c01Op{K: "freeOldest"})
				linked = false
			case x < 78 && !linked:
				progs[i] = append(progs[i], c01Op{K: "freeNewest"})
			case x < 90:
				lk := r.chance(60)
				progs[i] = append(progs[i], c01Op{K: "update", Sz: 1 + r.intn(15), Link: lk})
				if lk {
					linked = true
				}
			default:
				progs[i] = append(progs[i], c01Op{K: "freeChain"})
				linked = false
			}
		}
	}
	return progs
}

type c01Corpus struct {
	Name  string    `json:"name"`
	N     int       `json:"n"`
	Cpb   int       `json:"cpb"`
	Progs [][]c01Op `json:"progs"`
	Sched []int     `json:"sched"`
}

func TestVerif_C01(t *testing.T) {
	seed := uint64(venvInt("VERIF_SEED", 1))
	n := venvInt("VERIF_N", 300)
	o := vopenOut(t)
	defer o.close()
	r := newVrand(seed)
	id := 0
	// corpus first (explicit schedules: minimised failures and known findings)
	if p := os.Getenv("VERIF_CORPUS"); p != "" {
		if b, err := os.ReadFile(p); err == nil {
			var cs []c01Corpus
			if err := json.Unmarshal(b, &cs); err != nil {
				t.Fatalf("corpus: %v", err)
			}
			for _, cc := range cs {
				c := c01Run(id, "corpus:"+cc.Name, cc.N, cc.Cpb, cc.Progs, nil, cc.Sched)
				o.emit(c)
				id++
			}
		}
	}
	for k := 0; k < n; k++ {
		nslots := 2 + r.intn(5)
		cpb := []int{16, 32}[r.intn(2)]
		nthr := 1 + r.intn(4)
		progs := c01Progs(r, nthr, 5)
		var c c01Case
		switch k % 4 {
		case 0:
			c = c01Run(id, "uniform", nslots, cpb, progs, func(int) vsChooser { return vsRandomChooser(r, 0, 2) }, nil)
		case 1:
			c = c01Run(id, "sticky", nslots, cpb, progs, func(int) vsChooser { return vsRandomChooser(r, 85, 1) }, nil)
		default:
			x := r.intn(nthr)
			kk := r.intn(40)
			c = c01Run(id, fmt.Sprintf("preempt(t%d@%d)", x, kk), nslots, cpb, progs, func(int) vsChooser { return vsPreemptChooser(r, x, kk) }, nil)
		}
		o.emit(c)
		id++
	}
	// directed: the physically last slot (initially the tail, never handed out first) is allocated after a
	// recycle, linked as the SECOND element of a message chain and given back through recycleBuffers —
	// the path that looks buffers up by offset (readBufferSlice) at the very end of the mapping
	for _, nslots := range []int{3, 4, 5} {
		var prog []c01Op
		for k := 0; k < nslots-1; k++ {
			prog = append(prog, c01Op{K: "alloc"})
		}
		prog = append(prog, c01Op{K: "freeOldest"}, c01Op{K: "alloc"})
		for k := 0; k < nslots-3; k++ {
			prog = append(prog, c01Op{K: "freeOldest"})
		}
		prog = append(prog, c01Op{K: "update", Sz: 5, Link: true}, c01Op{K: "freeChain"}, c01Op{K: "alloc"})
		for rep := 0; rep < 4; rep++ { // ids cycle through the slack values
			c := c01Run(id, fmt.Sprintf("directed-last-slot-chain(n%d)", nslots), nslots, 16, [][]c01Op{prog},
				func(int) vsChooser { return vsRandomChooser(newVrand(seed+uint64(id)), 0, 0) }, nil)
			o.emit(c)
			id++
		}
	}
	// directed: a pusher stalled between its tail CAS and the link store (the list is then cut after the old
	// tail), other pushers complete behind it and allocators drain up to the cut.  The old tail is the
	// head of a message chain that was given back alone (its header still named the next slice, which its
	// holder keeps) — nothing of that stale link may be followed.  Variants: with/without the chain,
	// 1..3 pushes behind the stalled one, 2..4 allocations into the cut.
	for v := 0; v < 24; v++ {
		chain := v%2 == 0
		behind := 1 + (v/2)%3
		drain := 2 + (v/6)%3
		cpb := []int{16, 32}[v%2]
		p0 := []c01Op{{K: "alloc"}, {K: "alloc"}, {K: "alloc"}}
		if chain {
			p0 = append(p0, c01Op{K: "update", Sz: 7, Link: true})
		}
		p0 = append(p0, c01Op{K: "freeOldest"})
		if chain {
			p0 = append(p0, c01Op{K: "update", Sz: 3, Link: true})
		}
		p1 := []c01Op{{K: "alloc"}, {K: "freeOldest"}}
		var p2, p3 []c01Op
		for k := 0; k < behind; k++ {
			p2 = append(p2, c01Op{K: "alloc"})
		}
		for k := 0; k < behind; k++ {
			p2 = append(p2, c01Op{K: "freeOldest"})
		}
		p3 = append(p3, c01Op{K: "alloc"})
		for k := 0; k < drain; k++ {
			p3 = append(p3, c01Op{K: "alloc"})
		}
		nslots := 3 + 1 + behind + 1 + 1 // three for t0, one for t1, `behind` for t2, one for t3, the tail
		phases := []c01Phase{{T: 0, Ops: 3}, {T: 1, Ops: 1}, {T: 2, Ops: behind}, {T: 0, Ops: len(p0)}, {T: 3, Ops: 1},
			{T: 1, Ops: 2, TailCAS: true}, {T: 2, Ops: len(p2)}, {T: 3, Ops: len(p3)}}
		c := c01Run(id, fmt.Sprintf("directed-stalled-pusher(chain=%v,behind=%d,drain=%d)", chain, behind, drain), nslots, cpb,
			[][]c01Op{p0, p1, p2, p3}, func(int) vsChooser { return c01Script(phases) }, nil)
		o.emit(c)
		id++
	}
	// directed: a chain recycler (recycleBuffers) stalled right after it has pushed the FIRST slice of its chain.
	// Another thread pushes behind that slice, drains the list up to it, allocates it and links it in front of a
	// slice it holds.  Whatever the recycler does when it resumes, it may only give back the slices of ITS chain as
	// it was when the call started (the link of a slice it has already released is no longer its to read).
	for v := 0; v < 8; v++ {
		cpb := []int{16, 32}[v%2]
		extra := (v / 2) % 2 // further free slots in front of the cut
		long := v/4 == 1     // three-slice chain
		p0 := []c01Op{{K: "alloc"}, {K: "alloc"}}
		if long {
			p0 = append(p0, c01Op{K: "alloc"})
		}
		p0 = append(p0, c01Op{K: "update", Sz: 5, Link: true}, c01Op{K: "freeChain"})
		p2 := []c01Op{{K: "alloc"}, {K: "freeOldest"}}
		held0 := 2
		if long {
			held0 = 3
		}
		nslots := held0 + 1 + 2 + extra
		var p1 []c01Op
		for k := 0; k < 2+extra+1; k++ { // drains the free slots in front of the cut, then the recycled head itself
			p1 = append(p1, c01Op{K: "alloc"})
		}
		for k := 0; k < 2+extra; k++ {
			p1 = append(p1, c01Op{K: "freeOldest"})
		}
		p1 = append(p1, c01Op{K: "alloc"}, c01Op{K: "update", Sz: 9, Link: true})
		phases := []c01Phase{{T: 0, Ops: len(p0) - 1}, {T: 2, Ops: 1}, {T: 0, Ops: len(p0), SizeAdd: true},
			{T: 2, Ops: 2}, {T: 1, Ops: len(p1)}, {T: 0, Ops: len(p0)}}
		c := c01Run(id, fmt.Sprintf("directed-stalled-chain-recycler(extra=%d,long=%v)", extra, long), nslots, cpb,
			[][]c01Op{p0, p1, p2}, func(int) vsChooser { return c01Script(phases) }, nil)
		o.emit(c)
		id++
	}
	// systematic single pre-emption for a fixed small configuration (3 slots, alloc/free/alloc vs alloc/free)
	progs := [][]c01Op{{{K: "alloc"}, {K: "freeOldest"}, {K: "alloc"}, {K: "alloc"}}, {{K: "alloc"}, {K: "alloc"}, {K: "freeNewest"}, {K: "freeOldest"}}}
	for _, nslots := range []int{2, 3, 4} {
		for x := 0; x < 2; x++ {
			for kk := 0; kk <= 44; kk++ {
				x, kk := x, kk
				c := c01Run(id, fmt.Sprintf("systematic-preempt(n%d,t%d@%d)", nslots, x, kk), nslots, 16, progs,
					func(int) vsChooser { return vsPreemptChooser(newVrand(seed+uint64(id)), x, kk) }, nil)
				o.emit(c)
				id++
			}
		}
	}
	t.Logf("emitted %d cases", id)
}
