//go:build verif

package shmipc

// C09, mechanism S: the hand-off between the event loop and a closing owner, on the REAL functions.
// Stream.fillDataToReadBuffer (what the event loop runs for a data element after it has looked the stream
// up) and Stream.Close() run as two controlled threads on a real server stream of a real session pair, one
// shared access per step (atomics of stream.go and the pendingData mutex, instrumented from the current
// source).  Every schedule with one pre-emption is executed:  T1 k steps | T2 completely | T1 rest  and
// T2 k steps | T1 completely | T2 rest.  ORACLE after each: the slot of the delivered element is free again
// and nothing sits in pendingData of the closed stream.  The order of T1's accesses (pendingData lock vs.
// load of the state) is reported so that it can be compared with the label order of Model/AccountingConc.v
// (LoopAdd, then LoopCheck).

import (
	"fmt"
	"testing"
	"time"
	"unsafe"
)

type c09SchedCase struct {
	ID       int      `json:"id"`
	Schedule []int    `json:"schedule"` // thread per step: 0 = event loop (fillDataToReadBuffer), 1 = owner (Close)
	Strategy string   `json:"strategy"`
	T1       [][2]int `json:"t1_accesses"` // (kind, region) of the event-loop thread: kind 0 load, 3 CAS, 4 lock, 6 unlock; region 0 = stream state, -2 = mutex
	InUse    int      `json:"inuse"`
	Pending  int      `json:"pending"`
	Oracle   []string `json:"oracle"`
	Note     string   `json:"note,omitempty"`
}

func c09SchedOne(id int, cl, sv *Session, strategy string, first, k int) (c c09SchedCase) {
	c = c09SchedCase{ID: id, Strategy: strategy}
	bm := cl.bufferManager
	sid := uint32(9001 + 2*id)
	inuse := func() int {
		n := 0
		for _, l := range bm.lists {
			n += int(*l.cap) - int(*l.size)
		}
		return n
	}
	if n := inuse(); n != 0 {
		c.Note = fmt.Sprintf("HARNESS: %d slots in use before the scenario", n)
		return
	}
	put := func() (uint32, bool) {
		b, err := bm.allocShmBuffer(100)
		if err != nil {
			return 0, false
		}
		b.append(make([]byte, 100)...)
		b.update()
		off := b.offsetInShm
		putBackBufferSlice(b)
		return off, true
	}
	// first message through the real queue and the real event loop: the server accepts the stream object
	off0, ok := put()
	if !ok {
		c.Note = "HARNESS: allocation failed"
		return
	}
	if err := cl.queueManager.sendQueue.put(queueElement{seqID: sid, offsetInShmBuf: off0, status: uint32(streamOpened)}); err != nil {
		c.Note = "HARNESS: queue put failed"
		return
	}
	cl.wakeUpPeer()
	var ss *Stream
	if !c09Wait(func() bool { ss = sv.getStreamById(sid); return ss != nil && c09PendLen(ss) == 1 }, c09WaitBound) {
		c.Note = "HARNESS: the first message did not reach the peer within the bound"
		return
	}
	// second message: the event loop has popped it and found the stream (it holds the pointer)
	off1, ok := put()
	if !ok {
		c.Note = "HARNESS: allocation failed"
		return
	}
	vsReset()
	vsAddRegion(unsafe.Pointer(&ss.state), 4)
	vs.active = true
	t1 := vsSpawn(func() { vsPre(); _ = ss.fillDataToReadBuffer(bufferSliceWrapper{offset: off1}) })
	t2 := vsSpawn(func() { vsPre(); ss.Close() })
	th := []*vsThread{t1, t2}
	step := func(i int) {
		n := len(vs.log)
		vsStep(th[i])
		c.Schedule = append(c.Schedule, i)
		// a thread that found the mutex busy cannot move before the holder has released it
		if len(vs.log) > n && vs.log[len(vs.log)-1].Kind == vsKBusy && !th[1-i].done {
			vsStep(th[1-i])
			c.Schedule = append(c.Schedule, 1-i)
		}
	}
	for i := 0; i < k && !th[first].done; i++ {
		step(first)
	}
	for guard := 0; !th[1-first].done && guard < 10000; guard++ {
		step(1 - first)
	}
	for guard := 0; !th[first].done && guard < 10000; guard++ {
		step(first)
	}
	vs.active = false
	for _, ev := range vs.log {
		if ev.Tid == 0 && ev.Kind != vsKBusy {
			c.T1 = append(c.T1, [2]int{ev.Kind, ev.Reg})
		}
	}
	// the close notification travels to the client (which has no such stream) - wait until it is consumed
	q := sv.queueManager.sendQueue
	c09Wait(func() bool { return q.size() == 0 && !q.consumerIsWorking() }, c09WaitBound)
	time.Sleep(200 * time.Microsecond)
	c.InUse = inuse()
	c.Pending = c09PendLen(ss)
	if ss.getStreamState() != uint32(streamClosed) {
		c.Note = "HARNESS: the stream is not closed after Close"
	}
	if c.InUse != 0 || c.Pending != 0 {
		c.Oracle = append(c.Oracle, fmt.Sprintf("C09:buffer-parked-in-pendingData-of-closed-stream|the event loop delivered an element to a stream whose owner ran Close() %s: afterwards %d slot(s) stay in use and %d message(s) sit in pendingData of the closed stream, which is out of the session table: leaked for the life of the session (schedule, 0 = event loop / 1 = owner: %v)",
			map[bool]string{true: "in the middle of fillDataToReadBuffer", false: "around fillDataToReadBuffer"}[first == 0 && k > 0], c.InUse, c.Pending, c.Schedule))
		// give the slots back so that the next schedule starts clean
		ss.pendingData.clear()
	}
	return
}

func TestVerif_C09Sched(t *testing.T) {
	out := vopenOut(t)
	defer out.close()
	cl, sv, err := c09Pair(3900, 8, nil)
	if err != nil {
		out.emit(c09SchedCase{Note: "HARNESS: setup failed: " + err.Error()})
		return
	}
	defer func() {
		cl.Close()
		sv.Close()
	}()
	id := 0
	// how many steps each thread has when it runs alone
	probe := c09SchedOne(id, cl, sv, "probe: event loop completely, then owner", 0, 1<<20)
	out.emit(probe)
	id++
	n1, n2 := 0, 0
	for _, x := range probe.Schedule {
		if x == 0 {
			n1++
		} else {
			n2++
		}
	}
	for k := 0; k <= n1; k++ {
		out.emit(c09SchedOne(id, cl, sv, fmt.Sprintf("event loop %d steps | owner completely | event loop rest", k), 0, k))
		id++
	}
	for k := 1; k <= n2; k++ {
		out.emit(c09SchedOne(id, cl, sv, fmt.Sprintf("owner %d steps | event loop completely | owner rest", k), 1, k))
		id++
	}
}
