//go:build verif

package shmipc

// C08 — zero-copy read results stay valid until they are released.
// Same pipe as C06 (c06_common_test.go, passed explicitly by props/C08.py) with a read-heavy op mix:
// every slice returned by ReadBytes/Peek is kept and compared with its private copy after every
// later op until the release, while "other" owners allocate, scribble over and free slots.

import "testing"

func TestVerif_C08(t *testing.T) {
	out := vopenOut(t)
	defer out.close()
	rng := newVrand(uint64(venvInt("VERIF_SEED", 1)) + 0x0C08)
	n := venvInt("VERIF_N", 300)
	for i := 0; i < n; i++ {
		out.emit(vpGenCase(rng, i, "c08"))
	}
	// results of ReadBytes / Peek that came through the socket fallback (non-shm slices) of REAL session pairs
	// must not change either while later events arrive on the connection (see c06_session_test.go)
	n2 := venvInt("VERIF_N2", n/10)
	vsRun(out, newVrand(uint64(venvInt("VERIF_SEED", 1))+0x0C58), n2, n, "c08s")
	// callback mode: results kept past OnData while the peer closes (c08_callback_test.go)
	vcRun(out, newVrand(uint64(venvInt("VERIF_SEED", 1))+0x0CB), venvInt("VERIF_N3", n2), n+n2)
}
