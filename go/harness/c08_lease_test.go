//go:build verif

package shmipc

// C08 — zero-copy read results stay valid until they are released.
// Same pipe as C06 (c06_common_test.go, passed explicitly by props/C08.py) with a read-heavy op mix:
// every slice returned by ReadBytes/Peek is kept and compared with its private copy after every
// later op until the release, while "other" owners allocate, scribble over and free slots.

import "testing"

func TestVerif_C08(t *testing.T) {
	out := vopenOut(t)
	defer out.close()
	rng := newVrand(uint64(venvInt("VERIF_SEED", 1)) + 0x0C08)
	n := venvInt("VERIF_N", 300)
	for i := 0; i < n; i++ {
		out.emit(vpGenCase(rng, i, "c08"))
	}
}
