//go:build verif

package shmipc

// C09 correspondence + oracle harness (mechanism D on REAL session pairs): generated histories of
// open / write (sizes relative to the slice capacities) / pre-allocation / flush / partial ReadBytes,
// Peek, Discard / ReleasePreviousRead / reset+ReleaseReadAndReuse / Close from either side with unread
// or undelivered data / Flush on a closed stream / data injected for a stream that does not exist /
// queue-full (small QueueCap, elements injected without wake-up) / shared-memory exhaustion (the harness
// holds all but k slots).  One op at a time with wait-for-quiescence; after every op the per-class
// in-use slot counts are recorded (model comparison).  ORACLE (independent of the model): at the end,
// after closing every stream on both ends and returning the harness-held slots, no slot is in use.

import (
	"fmt"
	"io"
	"net"
	"os"
	"strings"
	"sync"
	"sync/atomic"
	"testing"
	"time"
)

type c09Op struct {
	Op    string   `json:"op"`
	E     int      `json:"e"` // 0 client, 1 server
	Sid   int      `json:"sid"`
	Slots []int    `json:"slots"`
	Sizes []int    `json:"sizes"`
	N     int      `json:"n"`
	Kind  int      `json:"kind"` // read: 0 ReadBytes, 1 Discard, 2 Peek
	Heap  int      `json:"heap"`
	Wpos  int      `json:"wpos"`
	Err   string   `json:"err"`
	InUse []int    `json:"inuse"` // per class, after the op
	Q     [2]int   `json:"q"`     // elements in flight: to server, to client
	NoCmp int      `json:"nocmp"` // 1: op ran inside a concurrent phase - its snapshot is not a quiescent point
}

type c09Case struct {
	ID      int      `json:"id"`
	Retries int      `json:"retries"`           // how many times the history was re-run because a harness wait expired
	Expired []string `json:"expired,omitempty"` // the waits that expired in the abandoned attempts
	Caps   []int    `json:"caps"` // slots per class
	Sizes  []int    `json:"slice_sizes"`
	QCap   int      `json:"qcap"`
	Ops    []c09Op  `json:"ops"`
	Oracle []string `json:"oracle"`
	Feat   []string `json:"feat"`
	Note   string   `json:"note,omitempty"`
	// number of ops up to which the model is compared; the ops after it follow a racy phase (closes racing
	// with the peer's flushes) whose outcome depends on the schedule: only the end oracle applies
	CompareUpto int `json:"compare_upto"`
}

type c09World struct {
	client, server *Session
	bm             *bufferManager
	base           []int
	streams        map[int][2]*Stream // sid -> [client stream, server stream]
	sids           []int
	closed         map[[2]int]bool
	ext            []*bufferSlice
	feat           map[string]bool
	oracle         []string
	fatal          string
	pinnedAtClose  int
	nextGhost      int
	fmu            sync.Mutex // guards fatal inside the concurrent phases
	gate           *c09Gate
	afterClose     map[[2]int]int // slots allocated by writes after the local Close and not flushed since
	timeoutSlots   int            // shm slices that were in the send buffer of a fallback Flush whose socket send timed out
	racy           bool
}

func c09Pair(id int, qcap uint32, cb ListenCallback) (*Session, *Session, error) {
	conf := DefaultConfig()
	conf.MemMapType = MemMapTypeMemFd
	conf.ConnectionWriteTimeout = 20 * time.Second
	conf.InitializeTimeout = 10 * time.Second
	conf.ShareMemoryPathPrefix = fmt.Sprintf("/dev/shm/verif_c09_%d_%d", os.Getpid(), id)
	conf.QueuePath = conf.ShareMemoryPathPrefix + "_queue"
	conf.ShareMemoryBufferCap = 1 << 20
	conf.BufferSliceSizes = []*SizePercentPair{{Size: 4096, Percent: 50}, {Size: 16384, Percent: 50}}
	conf.QueueCap = qcap
	conf.LogOutput = io.Discard
	sock := fmt.Sprintf("/tmp/verif_c09_%d_%d.sock", os.Getpid(), id)
	os.Remove(sock)
	ln, err := net.ListenUnix("unix", &net.UnixAddr{Name: sock, Net: "unix"})
	if err != nil {
		return nil, nil, err
	}
	defer func() { ln.Close(); os.Remove(sock) }()
	var server *Session
	var serr error
	done := make(chan struct{})
	go func() {
		defer close(done)
		conn, err := ln.Accept()
		if err != nil {
			serr = err
			return
		}
		sc := *conf
		sc.listenCallback = cb // nil except for the late-data scenario
		server, serr = Server(conn, &sc)
	}()
	conn, err := net.Dial("unix", sock)
	if err != nil {
		return nil, nil, err
	}
	cc := *conf
	client, err := newSession(&cc, conn, true)
	<-done
	if err != nil {
		return nil, nil, err
	}
	if serr != nil {
		client.Close()
		return nil, nil, serr
	}
	return client, server, nil
}

func (w *c09World) slotID(b *bufferSlice) int {
	for i, l := range w.bm.lists {
		if b.cap == *l.capPerBuffer {
			return w.base[i] + int((b.offsetInShm-l.bufferRegionOffsetInShm)/(*l.capPerBuffer+bufferHeaderSize))
		}
	}
	return -1
}

func (w *c09World) inuse() []int {
	r := make([]int, len(w.bm.lists))
	for i, l := range w.bm.lists {
		r[i] = int(*l.cap) - int(*l.size)
	}
	return r
}

func (w *c09World) sess(e int) *Session {
	if e == 0 {
		return w.client
	}
	return w.server
}

func (w *c09World) stream(e, sid int) *Stream {
	p := w.streams[sid]
	if e == 1 && (p[1] == nil || w.closed[[2]int{1, sid}]) {
		// the server accepts a (new) stream object whenever data arrives for an id it does not know -
		// also for an id whose earlier stream object has been closed (late data)
		if s := w.server.getStreamById(uint32(sid)); s != nil && s != p[1] {
			p[1] = s
			w.streams[sid] = p
			if w.closed[[2]int{1, sid}] {
				w.feat["stream-recreated-for-late-data"] = true
			}
			delete(w.closed, [2]int{1, sid})
		}
	}
	return p[e]
}

// every wait of the harness polls up to this bound; a history in which a wait expires is re-run from
// scratch (fresh sessions, same seed) up to 2 more times before anything is reported
var c09WaitBound = time.Duration(venvInt("VERIF_WAIT_S", 60)) * time.Second

func c09PendLen(s *Stream) int {
	s.pendingData.Lock()
	n := len(s.pendingData.unread)
	s.pendingData.Unlock()
	return n
}

func c09Wait(cond func() bool, d time.Duration) bool {
	dl := time.Now().Add(d)
	for i := 0; ; i++ {
		if cond() {
			return true
		}
		if time.Now().After(dl) {
			return false
		}
		if i < 200 {
			time.Sleep(50 * time.Microsecond)
		} else {
			time.Sleep(time.Millisecond)
		}
	}
}

func (w *c09World) rec(c *c09Case, op c09Op) {
	if w.fatal != "" {
		return
	}
	op.InUse = w.inuse()
	op.Q = [2]int{int(w.client.queueManager.sendQueue.size()), int(w.server.queueManager.sendQueue.size())}
	c.Ops = append(c.Ops, op)
}

func sliceIDs(w *c09World, l *linkedBuffer) []int {
	var r []int
	for s := l.sliceList.front(); s != nil; s = s.next() {
		if s.isFromShm {
			r = append(r, w.slotID(s))
		}
	}
	return r
}

func (w *c09World) opOpen(c *c09Case) int {
	if w.fatal != "" {
		return -1
	}
	atomic.StoreUint32(&w.client.unhealthy, 0) // the 30 s circuit-breaker timer fires
	s, err := w.client.OpenStream()
	if err != nil {
		w.fatal = "OpenStream: " + err.Error()
		return -1
	}
	sid := int(s.id)
	w.streams[sid] = [2]*Stream{s, nil}
	w.sids = append(w.sids, sid)
	w.rec(c, c09Op{Op: "open", Sid: sid})
	return sid
}

// write n bytes (prealloc: only allocate, as Reserve-ahead code would) and report the slots obtained
func (w *c09World) opWrite(c *c09Case, e, sid, n int, prealloc bool) {
	if w.fatal != "" {
		return
	}
	s := w.stream(e, sid)
	if s == nil || w.closed[[2]int{e, sid}] {
		return
	}
	before := map[int]bool{}
	for _, x := range sliceIDs(w, s.sendBuf) {
		before[x] = true
	}
	if prealloc {
		if s.sendBuf.sliceList.writeSlice == nil || !s.sendBuf.isFromShm {
			return
		}
		s.sendBuf.alloc(uint32(n))
		w.feat["unused-tail"] = true
	} else {
		s.BufferWriter().WriteBytes(make([]byte, n))
	}
	var nw []int
	for _, x := range sliceIDs(w, s.sendBuf) {
		if !before[x] {
			nw = append(nw, x)
		}
	}
	heap := 0
	if !s.sendBuf.isFromShareMemory() {
		heap = 1
		w.feat["alloc-failure-heap-slice"] = true
	}
	if len(nw) > 1 {
		w.feat["multi-slice-write"] = true
	}
	w.rec(c, c09Op{Op: "write", E: e, Sid: sid, Slots: nw, N: n, Heap: heap})
}

// wait until the queue towards the peer of e has been drained by the peer's event loop
func (w *c09World) drained(e int) bool {
	q := w.sess(e).queueManager.sendQueue
	return c09Wait(func() bool { return q.size() == 0 && !q.consumerIsWorking() }, c09WaitBound)
}

// the owner keeps using its stream after Close(): WriteBytes / Reserve on the BufferWriter of a stream that is
// closed locally (for the server only while no new object has been accepted for the id: the harness' pointer
// and the model's record must be the same object)
func (w *c09World) closedObject(e, sid int) *Stream {
	if !w.closed[[2]int{e, sid}] {
		return nil
	}
	s := w.streams[sid][e]
	if s == nil || s.getStreamState() != uint32(streamClosed) {
		return nil
	}
	if e == 1 && w.server.getStreamById(uint32(sid)) != nil {
		return nil
	}
	return s
}

func (w *c09World) opWriteClosed(c *c09Case, e, sid, n int, reserve bool) {
	if w.fatal != "" {
		return
	}
	s := w.closedObject(e, sid)
	if s == nil {
		return
	}
	before := map[int]bool{}
	for _, x := range sliceIDs(w, s.sendBuf) {
		before[x] = true
	}
	var err error
	if reserve {
		_, err = s.BufferWriter().Reserve(n)
	} else {
		_, err = s.BufferWriter().WriteBytes(make([]byte, n))
	}
	var nw []int
	for _, x := range sliceIDs(w, s.sendBuf) {
		if !before[x] {
			nw = append(nw, x)
		}
	}
	heap := 0
	if !s.sendBuf.isFromShareMemory() {
		heap = 1
	}
	es := ""
	if err != nil {
		es = err.Error()
	}
	w.afterClose[[2]int{e, sid}] += len(nw)
	w.feat["write-after-close"] = true
	if reserve {
		w.feat["reserve-after-close"] = true
	}
	w.rec(c, c09Op{Op: "write", E: e, Sid: sid, Slots: nw, N: n, Heap: heap, Err: es})
}

// ReleaseReadAndReuse called on a closed stream (no reset: the pool would have refused it)
func (w *c09World) opReuseClosed(c *c09Case, e, sid int) {
	if w.fatal != "" {
		return
	}
	s := w.closedObject(e, sid)
	if s == nil {
		return
	}
	s.ReleaseReadAndReuse()
	w.feat["reuse-after-close"] = true
	w.rec(c, c09Op{Op: "reuse", E: e, Sid: sid})
}

// barrier: everything endpoint e has sent so far (queue elements, socket events) has been handled COMPLETELY by
// the peer's event loop.  The loop is one goroutine and the socket is FIFO, so once a polling event written now
// has been handled (recvPollingEventCount went up and the working flag is down again) every earlier event is done.
func (w *c09World) barrier(e int) bool {
	peer := w.sess(1 - e)
	dl := time.Now().Add(c09WaitBound)
	for time.Now().Before(dl) {
		before := atomic.LoadUint64(&peer.stats.recvPollingEventCount)
		w.sess(e).wakeUpPeer() // writes the polling event unless the peer is polling right now (then: retry)
		if c09Wait(func() bool { return atomic.LoadUint64(&peer.stats.recvPollingEventCount) > before }, 20*time.Millisecond) {
			return w.drained(e)
		}
	}
	return false
}

func (w *c09World) opFlush(c *c09Case, e, sid int) { w.opFlushX(c, e, sid, false) }

// stall = the fault "the control connection is stalled longer than ConnectionWriteTimeout while the session stays
// alive": for the time of the Flush the harness holds the session's socket-write flag exactly as a writer whose
// write(2) is blocked holds it, with a short ConnectionWriteTimeout; a fallback Flush then returns
// ErrConnectionWriteTimeout.  The stall ends right afterwards (the queued event is written then, so the peer still
// receives the data): for the slot accounting the op is the same Flush label - every exit of Flush, the error exits
// of the fallback path included, must leave no shared-memory slice behind.
func (w *c09World) opFlushX(c *c09Case, e, sid int, stall bool) {
	if w.fatal != "" {
		return
	}
	s := w.stream(e, sid)
	if s == nil {
		return
	}
	var sizes []int
	wpos := 0
	i := 0
	for sl := s.sendBuf.sliceList.front(); sl != nil; sl = sl.next() {
		sizes = append(sizes, sl.size())
		if sl == s.sendBuf.sliceList.writeSlice {
			wpos = i
			break
		}
		i++
	}
	if s.sendBuf.Len() == 0 {
		sizes = nil
	}
	wasOpen := s.IsOpen()
	wasFb := s.inFallbackState || !s.sendBuf.isFromShareMemory()
	had := s.sendBuf.Len() > 0
	peerSess := w.sess(1 - e)
	fbBefore := atomic.LoadUint64(&peerSess.stats.fallbackReadCount)
	peerStream := w.stream(1-e, sid)
	peerPend := -1
	if peerStream != nil && !w.closed[[2]int{1 - e, sid}] {
		peerPend = c09PendLen(peerStream)
	}
	stalled := stall && had && wasOpen && wasFb
	shmBefore := len(sliceIDs(w, s.sendBuf))
	var release func()
	if stalled {
		sess := w.sess(e)
		oldTimeout := sess.config.ConnectionWriteTimeout
		sess.config.ConnectionWriteTimeout = 60 * time.Millisecond
		for !atomic.CompareAndSwapUint32(&sess.writing, 0, 1) {
			time.Sleep(20 * time.Microsecond)
		}
		release = func() {
			atomic.StoreUint32(&sess.writing, 0)
			asyncNotify(sess.notifyContinueWriteCh)
			sess.config.ConnectionWriteTimeout = oldTimeout
		}
	}
	err := s.Flush(false)
	if stalled {
		release()
		if err == ErrConnectionWriteTimeout {
			w.feat["fallback-send-timeout"] = true
			w.timeoutSlots += shmBefore
		}
	}
	es := ""
	if err != nil {
		es = err.Error()
	}
	if had && w.closedObject(e, sid) == s {
		delete(w.afterClose, [2]int{e, sid})
		w.feat["flush-after-close"] = true
	}
	switch {
	case had && !wasOpen:
		w.feat["flush-on-closed-stream"] = true
	case had && wasFb:
		w.feat["fallback-flush"] = true
		// the fallback event travels over the socket: wait until the peer's event loop has handled it
		if !c09Wait(func() bool { return atomic.LoadUint64(&peerSess.stats.fallbackReadCount) > fbBefore }, c09WaitBound) {
			w.fatal = "flush: the fallback data did not reach the peer within the bound"
		}
		// 62f988f: handleFallbackData first consumes everything queued towards the peer, then delivers the item.
		// The counter above is incremented BEFORE all that: wait until the peer's loop is provably past the event.
		if !w.barrier(e) {
			w.fatal = "flush: the peer did not drain the queue within the bound"
		}
		if peerPend >= 0 && c09PendLen(peerStream) <= peerPend {
			w.fatal = "flush: the fallback data did not reach the peer stream within the bound"
		}
	case had && err == ErrQueueFull:
		w.feat["queue-full"] = true
	case had && err == nil:
		if !w.drained(e) {
			w.fatal = "flush: the peer did not drain the queue within the bound"
		}
	}
	w.rec(c, c09Op{Op: "flush", E: e, Sid: sid, Sizes: sizes, Wpos: wpos, Err: es})
}

func (w *c09World) avail(s *Stream) int {
	s.pendingData.moveTo(s.recvBuf) // what readMore does first
	return s.recvBuf.Len()
}

func (w *c09World) opRead(c *c09Case, e, sid, kind, k int) {
	if w.fatal != "" {
		return
	}
	s := w.stream(e, sid)
	if s == nil || w.closed[[2]int{e, sid}] {
		return
	}
	a := w.avail(s)
	if k > a {
		k = a
	}
	if k > 0 {
		var err error
		switch kind {
		case 0:
			_, err = s.BufferReader().ReadBytes(k)
		case 1:
			_, err = s.BufferReader().Discard(k)
		default:
			_, err = s.BufferReader().Peek(k)
		}
		if err != nil {
			w.fatal = "read failed: " + err.Error()
		}
	}
	if s.recvBuf.pinnedList.size() > 0 {
		w.feat["pinned-slices"] = true
	}
	if k > 0 && k < a {
		w.feat["partial-read"] = true
	}
	w.rec(c, c09Op{Op: "read", E: e, Sid: sid, Kind: kind, N: k})
}

func (w *c09World) opRelease(c *c09Case, e, sid int) {
	if w.fatal != "" {
		return
	}
	s := w.stream(e, sid)
	if s == nil || w.closed[[2]int{e, sid}] {
		return
	}
	s.BufferReader().ReleasePreviousRead()
	w.rec(c, c09Op{Op: "release", E: e, Sid: sid})
}

func (w *c09World) opReuse(c *c09Case, e, sid int) {
	if w.fatal != "" {
		return
	}
	s := w.stream(e, sid)
	if s == nil || w.closed[[2]int{e, sid}] || s.sendBuf.sliceList.size() > 0 {
		return
	}
	if s.reset() != nil {
		return
	}
	s.ReleaseReadAndReuse()
	if s.sendBuf.sliceList.size() == 1 {
		w.feat["parked-slice-reuse"] = true
	}
	w.rec(c, c09Op{Op: "reuse", E: e, Sid: sid})
}

func (w *c09World) opClose(c *c09Case, e, sid int) {
	if w.fatal != "" {
		return
	}
	s := w.stream(e, sid)
	if s == nil || w.closed[[2]int{e, sid}] {
		return
	}
	if n := s.recvBuf.pinnedList.size(); n > 0 {
		w.pinnedAtClose += n
		w.feat["close-with-pinned-slices"] = true
	}
	if s.recvBuf.Len() > 0 || c09PendLen(s) > 0 {
		w.feat["close-with-unread-data"] = true
	}
	if s.sendBuf.sliceList.size() > 0 {
		w.feat["close-with-unsent-data"] = true
	}
	wasOpen := s.IsOpen()
	// the close notification travels over the socket (nobody is woken) when the queue is full and, since
	// c91430a, always once the stream is in fallback state
	qfull := w.sess(e).queueManager.sendQueue.isFull() || s.inFallbackState
	s.Close()
	w.closed[[2]int{e, sid}] = true
	if wasOpen && qfull {
		// typeStreamClose event over the socket: nobody is woken, but since 62f988f handleStreamClose
		// consumes everything queued towards the peer before it half-closes the stream
		w.feat["close-notified-over-socket"] = true
	}
	if wasOpen {
		if qfull && !w.barrier(e) {
			w.fatal = "close: the peer did not drain the queue within the bound"
		}
		if !w.drained(e) {
			w.fatal = "close: the peer did not drain the queue within the bound"
		}
		// the peer's stream (if it exists and is still open) becomes half-closed
		ps := w.stream(1-e, sid)
		if ps != nil && !w.closed[[2]int{1 - e, sid}] {
			if !c09Wait(func() bool { return !ps.IsOpen() }, c09WaitBound) {
				w.fatal = "close: the close notification did not reach the peer stream within the bound"
			}
		}
	}
	w.rec(c, c09Op{Op: "close", E: e, Sid: sid})
}

func (w *c09World) opExtHold(c *c09Case, leave int) {
	if w.fatal != "" {
		return
	}
	var ids []int
	total := 0
	for _, l := range w.bm.lists {
		total += int(*l.size) - 1
	}
	for total > leave {
		// smallest class first, as allocShmBuffer(1) does
		b, err := w.bm.allocShmBuffer(1)
		if err != nil {
			break
		}
		w.ext = append(w.ext, b)
		ids = append(ids, w.slotID(b))
		total--
	}
	w.feat["exhaustion"] = true
	w.rec(c, c09Op{Op: "exthold", Slots: ids})
}

func (w *c09World) opExtReturn(c *c09Case) {
	if w.fatal != "" {
		return
	}
	for _, b := range w.ext {
		w.bm.recycleBuffer(b)
	}
	w.ext = nil
	w.rec(c, c09Op{Op: "extreturn"})
}

// put an element for stream sid directly into the queue (no wake-up): data for a stream that does
// not exist (any more); also the way the queue is filled
func (w *c09World) opInject(c *c09Case, toSrv bool, sid, n int) {
	if w.fatal != "" {
		return
	}
	from := w.client
	if !toSrv {
		from = w.server
	}
	q := from.queueManager.sendQueue
	if q.isFull() {
		return
	}
	b, err := w.bm.allocShmBuffer(uint32(n))
	if err != nil {
		return
	}
	id := w.slotID(b)
	w.rec(c, c09Op{Op: "exthold", Slots: []int{id}})
	b.append(make([]byte, n)...)
	b.update()
	if err := q.put(queueElement{seqID: uint32(sid), offsetInShmBuf: b.offsetInShm, status: uint32(streamOpened)}); err != nil {
		w.bm.recycleBuffer(b)
		w.fatal = "inject: " + err.Error()
		return
	}
	putBackBufferSlice(b)
	e := 0
	if toSrv {
		e = 1
	}
	if q.isFull() {
		w.feat["queue-filled"] = true
	}
	w.feat["injected-data"] = true
	w.rec(c, c09Op{Op: "inject", E: e, Sid: sid, Slots: []int{id}, Sizes: []int{n}})
}

// make endpoint e's peer poll now (a wake-up without data): the real wakeUpPeer
func (w *c09World) opWake(c *c09Case, e int) {
	if w.fatal != "" {
		return
	}
	w.sess(e).wakeUpPeer()
	if !w.drained(e) {
		w.fatal = "wake: the peer did not drain the queue within the bound"
	}
	time.Sleep(time.Millisecond)
	w.rec(c, c09Op{Op: "poll", E: 1 - e})
}

// Pre-allocation behind the write slice (an "unused tail" for done()) cannot be produced through
// BufferWriter (WriteBytes/WriteByte/Reserve allocate exactly); VERIF_C09_PREALLOC=1 produces it with the
// internal linkedBuffer.alloc to exercise that branch (it then double-frees: see the final report).
var c09Prealloc = os.Getenv("VERIF_C09_PREALLOC") == "1"

// The server's OnNewStream callback runs on the event loop right after getStream has created and
// registered the stream object and BEFORE the data is added to its pendingData: holding it there opens
// the window of the late-data path (stream.go fillDataToReadBuffer on a closed stream) deterministically.
type c09Gate struct {
	arrived chan *Stream
	release chan struct{}
}

func (g *c09Gate) OnNewStream(s *Stream) {
	g.arrived <- s
	<-g.release
}
func (g *c09Gate) OnShutdown(reason string) {}

// directed: data for a stream that its owner closes completely between the event loop's lookup and the
// pendingData.add (Props/C09.v, C09_late_data_interleaving)
func (w *c09World) lateDataScenario(c *c09Case) {
	sid := w.opOpen(c)
	if sid < 0 {
		return
	}
	cs := w.streams[sid][0]
	c.CompareUpto = len(c.Ops) // from here on the real run is not a sequence of atomic ops
	cs.BufferWriter().WriteBytes(make([]byte, 3000))
	if err := cs.Flush(false); err != nil {
		w.fatal = "late-data scenario: flush failed: " + err.Error()
		return
	}
	var ss *Stream
	select {
	case ss = <-w.gate.arrived:
	case <-time.After(c09WaitBound):
		w.fatal = "late-data scenario: the request did not reach the peer within the bound"
		return
	}
	// the event loop is parked inside getStream's callback; the owner closes the object completely
	closed := make(chan struct{})
	go func() { ss.Close(); close(closed) }()
	select {
	case <-closed:
	case <-time.After(c09WaitBound):
		close(w.gate.release)
		w.fatal = "late-data scenario: Close did not return within the bound"
		return
	}
	inTable := w.server.getStreamById(uint32(sid)) != nil
	close(w.gate.release) // now the loop adds the data to the closed object and re-checks the state
	if !w.drained(0) || !w.drained(1) {
		w.fatal = "late-data scenario: the peer did not drain the queue within the bound"
		return
	}
	time.Sleep(time.Millisecond)
	w.feat["late-data-for-closed-stream"] = true
	w.closed[[2]int{1, sid}] = true
	w.streams[sid] = [2]*Stream{cs, ss}
	total := 0
	for _, x := range w.inuse() {
		total += x
	}
	if inTable {
		w.oracle = append(w.oracle, "C09:harness-late-data-window-not-reached|the stream was still in the table after Close")
	}
	if total != 0 || c09PendLen(ss) != 0 {
		w.oracle = append(w.oracle, fmt.Sprintf("C09:late-data-for-closed-stream-not-recycled|the event loop added data to a stream that had been closed between its lookup and the add; %d slot(s) stay in use, %d message(s) stay in pendingData of the closed stream", total, c09PendLen(ss)))
	}
	w.rec(c, c09Op{Op: "sync"})
	w.opClose(c, 0, sid)
}

// ---- concurrent phases ---------------------------------------------------------------------------

func (w *c09World) setFatal(msg string) {
	w.fmu.Lock()
	if w.fatal == "" {
		w.fatal = msg
	}
	w.fmu.Unlock()
}

// record an op performed inside a concurrent phase (no snapshot: not a quiescent point)
func c09Log(log *[]c09Op, op c09Op) { op.NoCmp = 1; *log = append(*log, op) }

func (w *c09World) logWrite(log *[]c09Op, e, sid int, s *Stream, n int) {
	before := map[int]bool{}
	for _, x := range sliceIDs(w, s.sendBuf) {
		before[x] = true
	}
	s.BufferWriter().WriteBytes(make([]byte, n))
	var nw []int
	for _, x := range sliceIDs(w, s.sendBuf) {
		if !before[x] {
			nw = append(nw, x)
		}
	}
	heap := 0
	if !s.sendBuf.isFromShareMemory() {
		heap = 1
	}
	c09Log(log, c09Op{Op: "write", E: e, Sid: sid, Slots: nw, N: n, Heap: heap})
}

func (w *c09World) logFlush(log *[]c09Op, e, sid int, s *Stream) error {
	var sizes []int
	wpos, i := 0, 0
	for sl := s.sendBuf.sliceList.front(); sl != nil; sl = sl.next() {
		sizes = append(sizes, sl.size())
		if sl == s.sendBuf.sliceList.writeSlice {
			wpos = i
			break
		}
		i++
	}
	if s.sendBuf.Len() == 0 {
		sizes = nil
	}
	err := s.Flush(false)
	es := ""
	if err != nil {
		es = err.Error()
	}
	c09Log(log, c09Op{Op: "flush", E: e, Sid: sid, Sizes: sizes, Wpos: wpos, Err: es})
	return err
}

func (w *c09World) logReadAll(log *[]c09Op, e, sid int, s *Stream) {
	a := w.avail(s)
	if a > 0 {
		if _, err := s.BufferReader().Discard(a); err != nil {
			w.setFatal("concurrent phase: Discard failed: " + err.Error())
		}
	}
	c09Log(log, c09Op{Op: "read", E: e, Sid: sid, Kind: 1, N: a})
	s.BufferReader().ReleasePreviousRead()
	c09Log(log, c09Op{Op: "release", E: e, Sid: sid})
}

// Phase A: independent request/response traffic on several streams at once (user threads of both
// endpoints and both event loops really run concurrently).  Per-stream logs are emitted one after the other
// (a valid linearisation: the streams do not interact, the queue never fills, no slot is reused inside the
// phase); the model is compared at the quiescent point after the phase.
func (w *c09World) phaseConcurrent(c *c09Case, r *vrand) {
	if w.fatal != "" || len(w.ext) > 0 || c.QCap < 3 {
		return
	}
	// start from empty queues (elements injected without a wake-up would take queue slots)
	if w.client.queueManager.sendQueue.size() != 0 {
		w.opWake(c, 0)
	}
	if w.server.queueManager.sendQueue.size() != 0 {
		w.opWake(c, 1)
	}
	maxPick := c.QCap - 1 // every stream has at most one element in flight per direction: the queue never fills
	if maxPick > 4 {
		maxPick = 4
	}
	eligible := func() []int {
		var l []int
		for _, sid := range w.sids {
			cs := w.streams[sid][0]
			if cs == nil || w.closed[[2]int{0, sid}] || !cs.IsOpen() || cs.inFallbackState || !cs.sendBuf.isFromShareMemory() {
				continue
			}
			if ss := w.stream(1, sid); ss != nil && (w.closed[[2]int{1, sid}] || !ss.IsOpen() || ss.inFallbackState || !ss.sendBuf.isFromShareMemory() ||
				c09PendLen(ss) > 0 || ss.recvBuf.Len() > 0) {
				continue
			}
			if c09PendLen(cs) > 0 || cs.recvBuf.Len() > 0 {
				continue // nothing unread on either side: "data is there" then means "this round's message arrived"
			}
			l = append(l, sid)
		}
		return l
	}
	picked := eligible()
	for len(picked) < 2 && len(w.sids) < 10 && w.fatal == "" {
		w.opOpen(c)
		picked = eligible()
	}
	if len(picked) > maxPick {
		picked = picked[:maxPick]
	}
	if len(picked) < 2 || w.fatal != "" {
		return
	}
	logs := make([][]c09Op, len(picked))
	seeds := make([]uint64, len(picked))
	for i := range seeds {
		seeds[i] = r.u64()
	}
	var wg sync.WaitGroup
	for i, sid := range picked {
		wg.Add(1)
		go func(i, sid int) {
			defer wg.Done()
			rr := newVrand(seeds[i])
			cs := w.streams[sid][0]
			log := &logs[i]
			for round := 0; round < 2; round++ {
				w.logWrite(log, 0, sid, cs, 1+rr.intn(4000))
				if w.logFlush(log, 0, sid, cs) != nil {
					w.setFatal("concurrent phase: client flush failed")
					return
				}
				var ss *Stream
				if !c09Wait(func() bool {
					ss = w.server.getStreamById(uint32(sid))
					return ss != nil && (c09PendLen(ss) > 0 || ss.recvBuf.Len() > 0)
				}, c09WaitBound) {
					w.setFatal("concurrent phase: the request did not reach the peer within the bound")
					return
				}
				w.logReadAll(log, 1, sid, ss)
				w.logWrite(log, 1, sid, ss, 1+rr.intn(4000))
				if w.logFlush(log, 1, sid, ss) != nil {
					w.setFatal("concurrent phase: server flush failed")
					return
				}
				if !c09Wait(func() bool { return c09PendLen(cs) > 0 || cs.recvBuf.Len() > 0 }, c09WaitBound) {
					w.setFatal("concurrent phase: the response did not reach the peer within the bound")
					return
				}
				w.logReadAll(log, 0, sid, cs)
			}
		}(i, sid)
	}
	wg.Wait()
	if w.fatal != "" {
		return
	}
	if !w.drained(0) || !w.drained(1) {
		w.fatal = "concurrent phase: the peer did not drain the queue within the bound"
		return
	}
	for i, sid := range picked {
		_ = w.stream(1, sid) // register the server-side objects created during the phase
		c.Ops = append(c.Ops, logs[i]...)
	}
	w.feat["concurrent-traffic-phase"] = true
	w.rec(c, c09Op{Op: "sync"})
}

// Phase B (last thing of a history): closes racing with the peer's flushes.  Whether a flush is delivered
// before the close, meets a stream that is already closed (late-data path) or an id the table no longer
// knows (recycled by the client, a new stream object on the server) depends on the schedule, so the model
// is not compared after this point; the end oracle (in-use == 0 once everything is closed) still applies.
func (w *c09World) phaseRacyClose(c *c09Case, r *vrand) {
	if w.fatal != "" || len(w.ext) > 0 {
		return
	}
	var picked []int
	for _, sid := range w.sids {
		cs, ss := w.streams[sid][0], w.stream(1, sid)
		if cs == nil || ss == nil || w.closed[[2]int{0, sid}] || w.closed[[2]int{1, sid}] || !cs.IsOpen() || !ss.IsOpen() {
			continue
		}
		if cs.inFallbackState || ss.inFallbackState || !cs.sendBuf.isFromShareMemory() || !ss.sendBuf.isFromShareMemory() {
			continue // socket events are handled asynchronously: nothing to wait on
		}
		picked = append(picked, sid)
	}
	if len(picked) == 0 {
		return
	}
	c.CompareUpto = len(c.Ops)
	w.racy = true
	var wg sync.WaitGroup
	for _, sid := range picked {
		cs, ss := w.streams[sid][0], w.streams[sid][1]
		writer, closer := cs, ss
		if r.chance(50) {
			writer, closer = ss, cs
		}
		delay := time.Duration(r.intn(200)) * time.Microsecond
		wg.Add(2)
		go func() {
			defer wg.Done()
			for k := 0; k < 6; k++ {
				writer.BufferWriter().WriteBytes(make([]byte, 1+k*700))
				writer.Flush(false)
			}
		}()
		go func() {
			defer wg.Done()
			time.Sleep(delay)
			closer.Close()
		}()
	}
	wg.Wait()
	for _, sid := range picked {
		// whoever closed: mark what is closed now (finish closes the rest, re-created objects included)
		for e := 0; e < 2; e++ {
			if st := w.streams[sid][e]; st != nil && st.getStreamState() == uint32(streamClosed) {
				w.closed[[2]int{e, sid}] = true
			}
		}
	}
	// elements injected earlier without a wake-up may still sit in a queue (a close that found the queue full
	// went over the socket and woke nobody): wake both sides before waiting
	w.client.wakeUpPeer()
	w.server.wakeUpPeer()
	if !w.drained(0) || !w.drained(1) {
		w.fatal = fmt.Sprintf("racy phase: the peer did not drain the queue within the bound [client closed=%v server closed=%v q->srv=%d working=%v q->cli=%d working=%v]",
			w.client.IsClosed(), w.server.IsClosed(), w.client.queueManager.sendQueue.size(), w.client.queueManager.sendQueue.consumerIsWorking(),
			w.server.queueManager.sendQueue.size(), w.server.queueManager.sendQueue.consumerIsWorking())
		return
	}
	time.Sleep(2 * time.Millisecond)
	w.feat["racy-close-phase"] = true
}

func c09History(w *c09World, r *vrand, c *c09Case, nops int) {
	sizes := []int{1, 100, 4095, 4096, 4097, 8192, 16383, 16384, 16385, 20000, 40000}
	pickStream := func() (int, int, bool) {
		if len(w.sids) == 0 {
			return 0, 0, false
		}
		sid := w.sids[r.intn(len(w.sids))]
		e := r.intn(2)
		if w.stream(e, sid) == nil {
			e = 0
		}
		return e, sid, true
	}
	for len(c.Ops) < nops && w.fatal == "" {
		x := r.intn(100)
		switch {
		case x < 8 || len(w.sids) == 0:
			if len(w.sids) < 4 {
				w.opOpen(c)
			}
		case x < 30:
			if e, sid, ok := pickStream(); ok {
				n := sizes[r.intn(len(sizes))]
				if r.chance(30) {
					n = 1 + r.intn(24000)
				}
				w.opWrite(c, e, sid, n, false)
				if c09Prealloc && r.chance(12) {
					w.opWrite(c, e, sid, 1+r.intn(12000), true)
				}
				if r.chance(80) {
					w.opFlushX(c, e, sid, r.chance(35))
				}
			}
		case x < 38:
			if e, sid, ok := pickStream(); ok {
				w.opFlush(c, e, sid)
			}
		case x < 60:
			if e, sid, ok := pickStream(); ok {
				s := w.stream(e, sid)
				if s != nil && !w.closed[[2]int{e, sid}] {
					a := w.avail(s)
					k := a
					if a > 0 && r.chance(60) {
						k = 1 + r.intn(a)
					}
					w.opRead(c, e, sid, r.intn(3), k)
				}
			}
		case x < 68:
			if e, sid, ok := pickStream(); ok {
				w.opRelease(c, e, sid)
			}
		case x < 72:
			if e, sid, ok := pickStream(); ok {
				w.opReuse(c, e, sid)
			}
		case x < 80:
			if e, sid, ok := pickStream(); ok {
				w.opClose(c, e, sid)
			}
		case x < 85:
			if len(w.ext) == 0 {
				w.opExtHold(c, r.intn(4))
			} else {
				w.opExtReturn(c)
			}
		case x < 94:
			sid := 9001 + 2*w.nextGhost
			if len(w.sids) > 0 && r.chance(50) {
				sid = w.sids[r.intn(len(w.sids))] // possibly a stream that is closed by now
			} else {
				w.nextGhost++
			}
			w.opInject(c, r.chance(50), sid, 1+r.intn(4000))
		default:
			switch r.intn(4) {
			case 0:
				w.opWake(c, r.intn(2))
			case 1:
				w.phaseConcurrent(c, r)
			default:
				// the owner keeps using a stream it has closed
				if e, sid, ok := pickStream(); ok && w.closedObject(e, sid) != nil {
					switch r.intn(4) {
					case 0:
						w.opReuseClosed(c, e, sid)
					case 1:
						w.opWriteClosed(c, e, sid, 1+r.intn(5000), true)
					default:
						w.opWriteClosed(c, e, sid, sizes[r.intn(len(sizes))], false)
					}
					if r.chance(40) {
						w.opFlush(c, e, sid)
					}
				}
			}
		}
	}
	if w.fatal == "" && r.chance(60) {
		w.phaseConcurrent(c, r)
	}
	if w.fatal == "" && r.chance(50) {
		w.phaseRacyClose(c, r)
	}
}

// directed: the pinned-at-Close history
func c09Directed(w *c09World, c *c09Case, which int) {
	switch which {
	case 0:
		sid := w.opOpen(c)
		w.opWrite(c, 0, sid, 6000, false)
		w.opFlush(c, 0, sid)
		w.opWrite(c, 0, sid, 3000, false)
		w.opFlush(c, 0, sid)
		w.opRead(c, 1, sid, 0, 100)  // fast path: pins the front slice
		w.opRead(c, 1, sid, 0, 7000) // crosses into the second slice: the first is parked in pinnedList
		w.opClose(c, 1, sid)         // without ReleasePreviousRead
		w.opClose(c, 0, sid)
	case 1: // queue full, flush on a closed stream, unknown stream, exhaustion
		sid := w.opOpen(c)
		w.opWrite(c, 0, sid, 10, false)
		w.opFlush(c, 0, sid)
		for i := 0; i < c.QCap; i++ {
			w.opInject(c, true, 9001+2*i, 50)
		}
		w.opWrite(c, 0, sid, 13000, false)
		w.opFlush(c, 0, sid) // ErrQueueFull after the retries
		w.opWake(c, 0)
		w.opClose(c, 1, sid)
		w.opWrite(c, 0, sid, 2000, false)
		w.opFlush(c, 0, sid) // stream is half-closed: recycle
		w.opInject(c, false, 7777, 10)
		w.opWake(c, 1) // client: unknown stream -> recycleBuffers
		w.opExtHold(c, 1)
		w.opWrite(c, 0, sid, 25000, false)
		w.opFlush(c, 0, sid)
		w.opExtReturn(c)
		w.opClose(c, 0, sid)
	case 2:
		w.lateDataScenario(c)
	case 3: // the owner writes after its Close: with and without a later Flush, Reserve, ReleaseReadAndReuse, either end
		a := w.opOpen(c)
		w.opWrite(c, 0, a, 100, false)
		w.opFlush(c, 0, a)
		w.opClose(c, 0, a)
		w.opWriteClosed(c, 0, a, 5000, false) // never flushed
		w.opWriteClosed(c, 0, a, 100, true)
		w.opReuseClosed(c, 0, a)
		b := w.opOpen(c)
		w.opClose(c, 0, b)
		w.opWriteClosed(c, 0, b, 3000, false)
		w.opFlush(c, 0, b) // ErrStreamClosed: recycles
		w.opClose(c, 1, a) // the server side of a, then a write after close there too
		w.opWriteClosed(c, 1, a, 2000, false)
		d := w.opOpen(c) // closed by the peer only: a later local Close cleans up
		w.opWrite(c, 0, d, 10, false)
		w.opFlush(c, 0, d)
		w.opClose(c, 1, d)
		w.opWrite(c, 0, d, 4000, false)
	case 4: // fallback send times out while the session stays alive: mixed shm+heap buffer, then a sticky-fallback stream
		a := w.opOpen(c)
		w.opWrite(c, 0, a, 10, false)
		w.opFlush(c, 0, a)
		w.opExtHold(c, 3)
		w.opWrite(c, 0, a, 60000, false) // more than the free share memory: part shm, part heap
		w.opFlushX(c, 0, a, true)         // ErrConnectionWriteTimeout
		w.opExtReturn(c)
		w.opWrite(c, 0, a, 5, false) // the stream is in fallback state now: one shm slice
		w.opFlushX(c, 0, a, true)
		w.opWrite(c, 0, a, 5000, false)
		w.opFlush(c, 0, a)
		w.opRead(c, 1, a, 1, 70000)
		w.opRelease(c, 1, a)
		w.opWrite(c, 1, a, 7, false) // the server side is in fallback state too
		w.opFlushX(c, 1, a, true)
	}
}

func (w *c09World) finish(c *c09Case) {
	if w.fatal != "" {
		return
	}
	// close every stream on both ends (ghost streams included), return the held slots
	w.server.streamLock.Lock()
	var ghosts []int
	for id := range w.server.streams {
		if _, ok := w.streams[int(id)]; !ok {
			ghosts = append(ghosts, int(id))
		}
	}
	w.server.streamLock.Unlock()
	for i := 0; i < len(ghosts); i++ { // deterministic order
		for j := i + 1; j < len(ghosts); j++ {
			if ghosts[j] < ghosts[i] {
				ghosts[i], ghosts[j] = ghosts[j], ghosts[i]
			}
		}
	}
	for _, g := range ghosts {
		w.streams[g] = [2]*Stream{nil, nil}
		w.sids = append(w.sids, g)
	}
	if w.client.queueManager.sendQueue.size() > 0 {
		w.opWake(c, 0)
	}
	if w.server.queueManager.sendQueue.size() > 0 {
		w.opWake(c, 1)
	}
	// the wake-ups may have created more ghosts
	w.server.streamLock.Lock()
	var more []int
	for id := range w.server.streams {
		if _, ok := w.streams[int(id)]; !ok {
			more = append(more, int(id))
		}
	}
	w.server.streamLock.Unlock()
	for i := 0; i < len(more); i++ {
		for j := i + 1; j < len(more); j++ {
			if more[j] < more[i] {
				more[i], more[j] = more[j], more[i]
			}
		}
	}
	for _, g := range more {
		w.streams[g] = [2]*Stream{nil, nil}
		w.sids = append(w.sids, g)
	}
	for _, sid := range append([]int{}, w.sids...) {
		w.opClose(c, 1, sid)
		w.opClose(c, 0, sid)
	}
	if len(w.ext) > 0 {
		w.opExtReturn(c)
	}
	if w.fatal != "" {
		return
	}
	time.Sleep(2 * time.Millisecond)
	// ORACLE
	_, _, smm := w.client.GetMetrics()
	_, _, smm2 := w.server.GetMetrics()
	total := 0
	for _, x := range w.inuse() {
		total += x
	}
	if smm.AllInUsedShareMemoryInBytes != 0 || smm2.AllInUsedShareMemoryInBytes != 0 || total != 0 {
		ac := 0
		for _, n := range w.afterClose {
			ac += n
		}
		if w.timeoutSlots == total && total > 0 && ac == 0 && w.pinnedAtClose == 0 {
			w.oracle = append(w.oracle, fmt.Sprintf("C09:fallback-send-timeout-loses-send-buffer-slices|all streams closed on both ends, harness slots returned, yet %d slot(s) = %d bytes stay in use: exactly the shared-memory slices that were in the send buffer of a fallback Flush whose socket send returned ErrConnectionWriteTimeout (control connection stalled, session alive): that exit of Flush did not recycle them", total, smm.AllInUsedShareMemoryInBytes))
		} else if ac == total && total > 0 {
			w.oracle = append(w.oracle, fmt.Sprintf("C09:write-after-Close-allocates-shared-memory-never-recycled|all streams closed on both ends, harness slots returned, yet %d slot(s) = %d bytes stay in use: exactly the slice(s) that WriteBytes / Reserve allocated for a stream AFTER its Close() (the calls succeeded; no Flush followed, and nothing else ever recycles the send buffer of a closed stream)", total, smm.AllInUsedShareMemoryInBytes))
		} else if w.pinnedAtClose == total && total > 0 {
			w.oracle = append(w.oracle, fmt.Sprintf("C09:pinned-slices-not-recycled-by-Close|all streams closed on both ends, harness slots returned, yet %d slot(s) = %d bytes stay in use: exactly the %d slice(s) that sat in a pinned list (ReadBytes without ReleasePreviousRead) when their stream was closed", total, smm.AllInUsedShareMemoryInBytes, w.pinnedAtClose))
		} else {
			w.oracle = append(w.oracle, fmt.Sprintf("C09:shared-memory-in-use-after-all-streams-closed|all streams closed on both ends, harness slots returned, yet %d slot(s) = %d bytes stay in use (per class %v; %d were pinned at Close)", total, smm.AllInUsedShareMemoryInBytes, w.inuse(), w.pinnedAtClose))
		}
	}
	for i, l := range w.bm.lists {
		if int(*l.size) != int(*l.cap) && total == 0 {
			w.oracle = append(w.oracle, fmt.Sprintf("C09:free-count-differs-from-capacity|class %d: size %d cap %d", i, *l.size, *l.cap))
		}
	}
}

// one attempt at one history on a fresh session pair; returns the case and the wait that expired ("" = none)
func c09RunJob(id, attempt, sub, qcap int, seed uint64, nops int) (c c09Case, fatal string) {
	c = c09Case{ID: id, QCap: qcap}
	defer func() {
		if e := recover(); e != nil {
			fatal = fmt.Sprintf("panic: %v", e)
		}
	}()
	var gate *c09Gate
	var cb ListenCallback
	if sub == 2 {
		gate = &c09Gate{arrived: make(chan *Stream, 4), release: make(chan struct{})}
		cb = gate
	}
	cl, sv, err := c09Pair(id*4+attempt, uint32(qcap), cb) // fresh paths: nothing is shared with an abandoned attempt
	if err != nil {
		return c, "setup failed: " + err.Error()
	}
	defer func() {
		cl.Close()
		sv.Close()
	}()
	w := &c09World{client: cl, server: sv, bm: cl.bufferManager, streams: map[int][2]*Stream{},
		closed: map[[2]int]bool{}, feat: map[string]bool{}, afterClose: map[[2]int]int{}}
	b := 0
	for _, l := range w.bm.lists {
		w.base = append(w.base, b)
		b += int(*l.cap)
		c.Caps = append(c.Caps, int(*l.cap))
		c.Sizes = append(c.Sizes, int(*l.capPerBuffer))
	}
	w.gate = gate
	if sub >= 0 {
		c09Directed(w, &c, sub)
	} else {
		c09History(w, newVrand(seed), &c, nops)
	}
	w.finish(&c)
	c.Oracle = w.oracle
	for f := range w.feat {
		c.Feat = append(c.Feat, f)
	}
	return c, w.fatal
}

func TestVerif_C09(t *testing.T) {
	seed := uint64(venvInt("VERIF_SEED", 1))
	n := venvInt("VERIF_N", 40)
	nops := venvInt("VERIF_OPS", 30)
	out := vopenOut(t)
	defer out.close()
	r := newVrand(seed)
	type job struct {
		id, sub int
		qcap    int
		seed    uint64
	}
	var jobs []job
	jobs = append(jobs, job{0, 0, 8, 0}, job{1, 1, 2, 0}, job{2, 2, 8, 0}, job{3, 3, 8, 0}, job{4, 4, 8, 0})
	for k := 0; k < n; k++ {
		jobs = append(jobs, job{5 + k, -1, []int{2, 3, 4, 8}[r.intn(4)], r.u64()})
	}
	results := make([]c09Case, len(jobs))
	sem := make(chan struct{}, 8)
	var wg sync.WaitGroup
	for k, j := range jobs {
		wg.Add(1)
		sem <- struct{}{}
		go func(k int, j job) {
			defer wg.Done()
			defer func() { <-sem }()
			var expired []string
			for attempt := 0; ; attempt++ {
				c, fatal := c09RunJob(j.id, attempt, j.sub, j.qcap, j.seed, nops)
				c.Retries = attempt
				c.Expired = expired
				if fatal != "" && attempt < 2 {
					expired = append(expired, fatal)
					continue
				}
				if fatal != "" {
					// the same wait expired in three independent runs of this history: a property-relevant
					// observation (something never happens), reported by the oracle - or a harness problem
					switch {
					case strings.Contains(fatal, "did not drain the queue"):
						c.Oracle = append(c.Oracle, "C09:peer-never-drains-queue|in 3 of 3 runs of this history "+fatal)
					case strings.Contains(fatal, "did not reach the peer"), strings.Contains(fatal, "close notification did not reach"):
						c.Oracle = append(c.Oracle, "C09:socket-event-never-reaches-peer|in 3 of 3 runs of this history "+fatal)
					default:
						c.Note += " HARNESS: " + fatal
					}
				}
				results[k] = c
				return
			}
		}(k, j)
	}
	wg.Wait()
	for _, c := range results {
		out.emit(c)
	}
}
