//go:build verif

package shmipc

// C16 correspondence (mechanism T) + property oracle: the REAL Listener / SessionManager over unix
// sockets, two listeners on one path as in TestHotRestart.  Every scenario logs the observable event
// history of the hot-restart bookkeeping:
//   * driver actions (Listener.HotRestart with its result, injected foreign events),
//   * the two handlers, wrapped through the package-level dispatch tables (sessionManagerHandlers,
//     protocolHandlers) so that the REAL handler runs and its call (session id, epoch read from the
//     wire) is recorded,
//   * transitions inferred from snapshots of the bookkeeping taken under the code's own locks
//     (checker done / time-out, session deaths),
//   * GetStream probes.
// props/C16.py runs Model/HotRestart.v as an acceptor over that history.  Independently of the model
// the oracle below checks the property itself: both sides leave hotRestartState in time, the ack
// count never goes negative, every pool ends on the announced epoch connected to the new server when
// nothing failed, parked sessions are not closed by the manager, traffic keeps working, a stale epoch
// changes nothing.

import (
	"errors"
	"fmt"
	"os"
	"runtime/debug"
	"sync"
	"sync/atomic"
	"testing"
	"time"
)

// ------------------------------------------------------------------------------------------ records

type v16Obs struct {
	LState  int64       `json:"ls"`
	LEpoch  int64       `json:"le"`
	LAck    int64       `json:"la"`
	LSess   []int64     `json:"lsess"`
	MState  int64       `json:"ms"`
	MEpoch  int64       `json:"me"`
	Pools   [][2]int64  `json:"pools"`   // epoch, alive
	Reserve []*[2]int64 `json:"reserve"` // nil = no parked pool
	// not exported: identities
	poolSess []*Session
	resSess  []*Session
	hsAll    bool
}

type v16Ev struct {
	K   string  `json:"k"` // hr | dr | da | gs | ev
	Nm  string  `json:"nm,omitempty"`
	I   int     `json:"i"`
	E   int64   `json:"e"`
	Ok  bool    `json:"ok"`
	Res int     `json:"res"`
	Obs *v16Obs `json:"obs"`
	T   int64   `json:"t"` // ms since scenario start (diagnostics only)
}

type v16Case struct {
	ID        string            `json:"id"`
	N         int               `json:"n"`
	Hist      []v16Ev           `json:"hist"`
	Oracle    []string          `json:"oracle"`
	Ambiguous bool              `json:"ambiguous"`
	Feat      []string          `json:"feat"`
	Stats     map[string]int64  `json:"stats"`
	Notes     map[string]string `json:"notes"`
	SkipModel bool              `json:"skip_model"`
}

// ------------------------------------------------------------------------------------------ scenario

type v16Scn struct {
	name   string
	n      int
	path   string
	prefix string
	t0     time.Time
	rng    *vrand

	mu        sync.Mutex // serialises the history
	hist      []v16Ev
	last      *v16Obs
	ambiguous bool
	oracle    []string
	feat      map[string]bool
	stats     map[string]int64
	notes     map[string]string

	oldL, newL *Listener
	sm         *SessionManager
	srv        []*Session // server session of the old listener per connection
	idxOfSrv   map[*Session]int

	stopSampler chan struct{}
	samplerDone chan struct{}
	stopTraffic chan struct{}
	trafficWG   sync.WaitGroup
	phaseB      int32 // 1 after the old listener was told to close
	trafficOK   int64
	getErrA     int64
	echoErrA    int64
	getErrB     int64
	echoErrBNew int64
	slowGet     int64
	killed      int32
	mgrHRSeen   int32
}

var v16reg struct {
	sync.RWMutex
	byMgr map[*SessionManager]*v16Scn
	byLis map[*Listener]*v16Scn
}
var v16patchOnce sync.Once

func v16patch() {
	v16patchOnce.Do(func() {
		v16reg.byMgr = map[*SessionManager]*v16Scn{}
		v16reg.byLis = map[*Listener]*v16Scn{}
		origM := sessionManagerHandlers[typeHotRestart]
		sessionManagerHandlers[typeHotRestart] = func(sm *SessionManager, params interface{}) {
			v16reg.RLock()
			sc := v16reg.byMgr[sm]
			v16reg.RUnlock()
			hp, ok := params.(*sessionManagerHotRestartParams)
			if sc == nil || !ok || hp.session == nil {
				origM(sm, params)
				return
			}
			sc.onRestartEvent(origM, sm, hp)
		}
		origA := protocolHandlers[typeHotRestartAck]
		protocolHandlers[typeHotRestartAck] = func(s *Session, hdr header, buf []byte) (int, bool, error) {
			if len(buf) < epochIDLen || s.listener == nil {
				return origA(s, hdr, buf)
			}
			v16reg.RLock()
			sc := v16reg.byLis[s.listener]
			v16reg.RUnlock()
			if sc == nil {
				return origA(s, hdr, buf)
			}
			return sc.onAck(origA, s, hdr, buf)
		}
	})
}

func (sc *v16Scn) setStat(k string, v int64) {
	sc.mu.Lock()
	sc.stats[k] = v
	sc.mu.Unlock()
}
func (sc *v16Scn) setNote(k, v string) {
	sc.mu.Lock()
	sc.notes[k] = v
	sc.mu.Unlock()
}

func (sc *v16Scn) ms() int64 { return int64(time.Since(sc.t0) / time.Millisecond) }

func (sc *v16Scn) fail(sig, what string) {
	sc.mu.Lock()
	sc.oracle = append(sc.oracle, sig+" | "+what)
	sc.mu.Unlock()
}
func (sc *v16Scn) failLocked(sig, what string) { sc.oracle = append(sc.oracle, sig+" | "+what) }

// snapshot of the bookkeeping, each side under its own locks (same order as the code takes them)
func (sc *v16Scn) snapshot() *v16Obs {
	o := &v16Obs{hsAll: true}
	l := sc.oldL
	l.mu.Lock()
	o.LState, o.LEpoch, o.LAck = int64(l.state), int64(l.epoch), int64(l.hotRestartAckCount)
	l.sessions.sessionMu.Lock()
	o.LSess = make([]int64, len(sc.srv))
	for i, s := range sc.srv {
		if _, ok := l.sessions.data[s]; ok {
			o.LSess[i] = int64(s.state)
		} else {
			o.LSess[i] = -1
		}
	}
	for s := range l.sessions.data {
		if !s.handshakeDone {
			o.hsAll = false
		}
	}
	l.sessions.sessionMu.Unlock()
	l.mu.Unlock()

	sm := sc.sm
	sm.RLock()
	o.MState, o.MEpoch = int64(sm.state), int64(sm.epoch)
	o.Pools = make([][2]int64, len(sm.pools))
	o.poolSess = make([]*Session, len(sm.pools))
	o.Reserve = make([]*[2]int64, len(sm.pools))
	o.resSess = make([]*Session, len(sm.pools))
	for i, p := range sm.pools {
		s := p.Session()
		o.poolSess[i] = s
		o.Pools[i] = [2]int64{int64(s.epochID), v16b(!s.IsClosed())}
	}
	for id, p := range sm.reservePools {
		if id >= 0 && id < len(sm.pools) && p != nil {
			s := p.Session()
			o.resSess[id] = s
			o.Reserve[id] = &[2]int64{int64(s.epochID), v16b(!s.IsClosed())}
		}
	}
	sm.RUnlock()
	return o
}

func v16b(b bool) int64 {
	if b {
		return 1
	}
	return 0
}

// transitions that no wrapper sees, inferred from two consecutive snapshots.  Canonical causal order.
func (sc *v16Scn) infer(p, q *v16Obs) []v16Ev {
	var evs []v16Ev
	add := func(nm string, i int) { evs = append(evs, v16Ev{K: "ev", Nm: nm, I: i, T: sc.ms()}) }
	for i := range q.Pools {
		if p.poolSess[i] == q.poolSess[i] && p.Pools[i][1] == 1 && q.Pools[i][1] == 0 {
			add("PoolSessionDies", i)
		}
	}
	for i := range q.Reserve {
		if p.resSess[i] != nil && p.resSess[i] == q.resSess[i] && p.Reserve[i][1] == 1 && q.Reserve[i][1] == 0 {
			add("ParkedSessionDies", i)
		}
	}
	for i := range q.LSess {
		if p.LSess[i] != -1 && q.LSess[i] == -1 {
			add("ListenerSessionGone", i)
		}
	}
	if p.MState == int64(hotRestartState) && q.MState != int64(hotRestartState) {
		cnt := 0
		for _, r := range q.Reserve {
			if r != nil {
				cnt++
			}
		}
		if cnt == len(q.Pools) && cnt > 0 || len(q.Pools) == 0 {
			add("ManagerTick", 0)
		} else {
			add("ManagerTimeout", 0)
		}
	}
	if p.LState == int64(hotRestartState) && q.LState == int64(hotRestartDoneState) {
		add("ListenerTick", 0)
	}
	if p.LState == int64(hotRestartState) && q.LState == int64(defaultState) {
		add("ListenerTimeout", 0)
	}
	return evs
}

// take a snapshot, emit what is inferred from the previous one, then the given events; the last
// emitted event carries the snapshot.  Caller holds sc.mu.
func (sc *v16Scn) observe(explicit ...v16Ev) *v16Obs {
	q := sc.snapshot()
	var evs []v16Ev
	if sc.last != nil {
		evs = sc.infer(sc.last, q)
	}
	if len(explicit) > 0 && len(evs) > 0 {
		// something else moved inside the window of an explicit event: the order is not observable
		sc.ambiguous = true
	}
	evs = append(explicit, evs...)
	if len(evs) > 0 {
		evs[len(evs)-1].Obs = q
		sc.hist = append(sc.hist, evs...)
	}
	if q.MState == int64(hotRestartState) {
		atomic.StoreInt32(&sc.mgrHRSeen, 1)
	}
	if !q.hsAll {
		sc.failLocked("C16:session-in-listener-table-before-handshake-done", "a session without handshakeDone is in l.sessions.data")
	}
	if q.LAck < 0 && (sc.last == nil || sc.last.LAck >= 0) {
		sc.stats["ack_negative_seen"]++
	}
	sc.last = q
	return q
}

func (sc *v16Scn) onRestartEvent(orig sessionManagerHandler, sm *SessionManager, hp *sessionManagerHotRestartParams) {
	sc.mu.Lock()
	defer sc.mu.Unlock()
	p := sc.observe()
	i := hp.session.sessionID
	orig(sm, hp)
	// attribute the swap to this call
	sm.RLock()
	var cur *Session
	if i >= 0 && i < len(sm.pools) {
		cur = sm.pools[i].Session()
	}
	sm.RUnlock()
	ok := i >= 0 && i < len(p.poolSess) && cur != p.poolSess[i]
	sc.observe(v16Ev{K: "dr", I: i, E: int64(hp.epoch), Ok: ok, T: sc.ms()})
	sc.stats["restart_events"]++
	if !ok {
		sc.stats["restart_events_without_swap"]++
	}
}

func (sc *v16Scn) onAck(orig protocolHandler, s *Session, hdr header, buf []byte) (int, bool, error) {
	sc.mu.Lock()
	defer sc.mu.Unlock()
	i, known := sc.idxOfSrv[s]
	epoch := int64(0)
	for k := 0; k < epochIDLen; k++ {
		epoch = epoch<<8 | int64(buf[k])
	}
	sc.observe()
	a, b, c := orig(s, hdr, buf)
	if known {
		sc.observe(v16Ev{K: "da", I: i, E: epoch, T: sc.ms()})
	} else {
		sc.ambiguous = true
	}
	sc.stats["acks"]++
	return a, b, c
}

// ------------------------------------------------------------------------------------------ echo server

type v16Listen struct{}

func (v16Listen) OnNewStream(s *Stream) { _ = s.SetCallbacks(&v16Echo{s}) }
func (v16Listen) OnShutdown(string)     {}

type v16Echo struct{ s *Stream }

func (e *v16Echo) OnData(r BufferReader) {
	n := r.Len()
	if n <= 0 {
		return
	}
	b, err := r.ReadBytes(n)
	if err != nil {
		return
	}
	_, _ = e.s.BufferWriter().WriteBytes(b)
	_ = e.s.Flush(false)
	e.s.ReleaseReadAndReuse()
}
func (e *v16Echo) OnLocalClose()  {}
func (e *v16Echo) OnRemoteClose() {}

// ------------------------------------------------------------------------------------------ set-up

func v16NewListener(path string) (*Listener, error) {
	cfg := NewDefaultListenerConfig(path, "unix")
	cfg.InitializeTimeout = 5 * time.Second
	l, err := NewListener(v16Listen{}, cfg)
	if err != nil {
		return nil, err
	}
	l.SetUnlinkOnClose(false)
	go func() { _ = l.Run() }()
	return l, nil
}

// the handshake of a new session occasionally times out on a loaded machine; that says nothing about the
// property: the scenario is set up again, a few times at most
func v16NewScn(name string, n int, seed uint64, rebuild time.Duration) (sc *v16Scn, err error) {
	for attempt := 0; attempt < 4; attempt++ {
		if sc, err = v16NewScnOnce(name, n, seed, rebuild); err == nil {
			return sc, nil
		}
		time.Sleep(time.Duration(200*(attempt+1)) * time.Millisecond)
	}
	return nil, err
}

func v16NewScnOnce(name string, n int, seed uint64, rebuild time.Duration) (*v16Scn, error) {
	pid := os.Getpid()
	sc := &v16Scn{name: name, n: n, t0: time.Now(), rng: newVrand(seed),
		path:   fmt.Sprintf("/tmp/v16_%d_%s.sock", pid, name),
		prefix: fmt.Sprintf("/dev/shm/v16_%d_%s", pid, name),
		feat:   map[string]bool{}, stats: map[string]int64{}, notes: map[string]string{},
		idxOfSrv: map[*Session]int{}, stopSampler: make(chan struct{}), samplerDone: make(chan struct{}),
		stopTraffic: make(chan struct{})}
	os.Remove(sc.path)
	var err error
	if sc.oldL, err = v16NewListener(sc.path); err != nil {
		return nil, err
	}
	conf := DefaultSessionManagerConfig()
	conf.Address, conf.Network, conf.SessionNum = sc.path, "unix", n
	conf.MemMapType = MemMapTypeMemFd
	conf.ShareMemoryPathPrefix = sc.prefix
	conf.QueuePath = sc.prefix + "_queue"
	conf.ShareMemoryBufferCap = 4 << 20
	conf.rebuildInterval = rebuild
	if conf.InitializeTimeout < 5*time.Second {
		conf.InitializeTimeout = 5 * time.Second
	}
	if sc.sm, err = NewSessionManager(conf); err != nil {
		sc.oldL.Close()
		return nil, err
	}
	// pair every client session with the old listener's server session (same queue name)
	sc.srv = make([]*Session, n)
	deadline := time.Now().Add(3 * time.Second)
	for {
		found := 0
		sc.oldL.sessions.sessionMu.Lock()
		for s := range sc.oldL.sessions.data {
			for i := 0; i < n; i++ {
				if sc.srv[i] == nil && s.name == sc.sm.pools[i].Session().name {
					sc.srv[i] = s
					sc.idxOfSrv[s] = i
				}
			}
		}
		sc.oldL.sessions.sessionMu.Unlock()
		for i := 0; i < n; i++ {
			if sc.srv[i] != nil {
				found++
			}
		}
		if found == n {
			break
		}
		if time.Now().After(deadline) {
			sc.sm.Close()
			sc.oldL.Close()
			return nil, fmt.Errorf("only %d of %d server sessions appeared in the listener table", found, n)
		}
		time.Sleep(5 * time.Millisecond)
	}
	v16reg.Lock()
	v16reg.byMgr[sc.sm] = sc
	v16reg.byLis[sc.oldL] = sc
	v16reg.Unlock()
	sc.mu.Lock()
	sc.last = sc.snapshot()
	sc.mu.Unlock()
	return sc, nil
}

func (sc *v16Scn) startSampler() {
	go func() {
		defer close(sc.samplerDone)
		k := 0
		it := 0
		for {
			select {
			case <-sc.stopSampler:
				return
			default:
			}
			sc.mu.Lock()
			before := sc.observe()
			it++
			if it%8 == 0 && sc.n > 0 {
				k = (k + 1) % sc.n
				sc.probe(k, before)
			}
			sc.mu.Unlock()
			time.Sleep(2 * time.Millisecond)
		}
	}()
}

// GetStream probe on pool k (getOrOpenStream is what SessionManager.GetStream calls); recorded only if
// the pool's session and its liveness were the same before and after.  Caller holds sc.mu.
func (sc *v16Scn) probe(k int, before *v16Obs) {
	sc.sm.RLock()
	p := sc.sm.pools[k]
	sc.sm.RUnlock()
	if p.Session() != before.poolSess[k] || !p.Session().IsHealthy() {
		return
	}
	t := time.Now()
	st, err := p.getOrOpenStream()
	if time.Since(t) > time.Second {
		sc.failLocked("C16:getstream-blocked", fmt.Sprintf("getOrOpenStream on pool %d took %v", k, time.Since(t)))
	}
	if err == nil {
		sc.sm.PutBack(st)
	}
	after := sc.snapshot()
	if after.poolSess[k] != before.poolSess[k] || after.Pools[k][1] != before.Pools[k][1] {
		return
	}
	sc.stats["probes"]++
	if err != nil {
		sc.stats["probe_errors"]++
		if before.Pools[k][1] == 1 {
			sc.failLocked("C16:getstream-failed-on-live-pool", fmt.Sprintf("pool %d: %v", k, err))
		}
	}
	// the probe carries the snapshot taken after it, so that the model is compared with the bookkeeping at
	// every probe (every ~16 ms), not only at transitions; if something moved during the probe the next
	// observe() reports it and this probe is dropped from the history
	if len(sc.infer(before, after)) != 0 || after.LState != before.LState || after.LAck != before.LAck ||
		after.MState != before.MState || after.MEpoch != before.MEpoch || after.LEpoch != before.LEpoch {
		return
	}
	for i := range after.poolSess {
		if after.poolSess[i] != before.poolSess[i] || after.resSess[i] != before.resSess[i] {
			return
		}
	}
	for i := range after.LSess {
		if after.LSess[i] != before.LSess[i] {
			return
		}
	}
	sc.hist = append(sc.hist, v16Ev{K: "gs", I: k, Ok: err == nil, T: sc.ms(), Obs: after})
}

func (sc *v16Scn) startTraffic(workers int) {
	for w := 0; w < workers; w++ {
		sc.trafficWG.Add(1)
		go func(w int) {
			defer sc.trafficWG.Done()
			seq := 0
			for {
				select {
				case <-sc.stopTraffic:
					return
				default:
				}
				seq++
				phaseB := atomic.LoadInt32(&sc.phaseB) == 1
				t := time.Now()
				st, err := sc.sm.GetStream()
				if time.Since(t) > time.Second {
					atomic.AddInt64(&sc.slowGet, 1)
				}
				if err != nil {
					if phaseB {
						atomic.AddInt64(&sc.getErrB, 1)
					} else {
						atomic.AddInt64(&sc.getErrA, 1)
					}
					time.Sleep(3 * time.Millisecond)
					continue
				}
				msg := fmt.Sprintf("ping-%d-%d", w, seq)
				sess := st.Session()
				ok := false
				if err = st.BufferWriter().WriteString(msg); err == nil {
					if err = st.Flush(false); err == nil {
						_ = st.SetReadDeadline(time.Now().Add(3 * time.Second))
						var got string
						got, err = st.BufferReader().ReadString(len(msg))
						ok = err == nil && got == msg
					}
				}
				if ok {
					atomic.AddInt64(&sc.trafficOK, 1)
					sc.sm.PutBack(st)
				} else {
					st.Close()
					if atomic.LoadInt32(&sc.phaseB) == 1 || phaseB {
						if sess.epochID != 0 { // a new-generation session failed
							atomic.AddInt64(&sc.echoErrBNew, 1)
						}
					} else {
						atomic.AddInt64(&sc.echoErrA, 1)
					}
				}
				time.Sleep(time.Duration(1+sc.n) * time.Millisecond)
			}
		}(w)
	}
}

func (sc *v16Scn) stopAll() {
	close(sc.stopTraffic)
	sc.trafficWG.Wait()
	close(sc.stopSampler)
	<-sc.samplerDone
	v16reg.Lock()
	delete(v16reg.byMgr, sc.sm)
	delete(v16reg.byLis, sc.oldL)
	v16reg.Unlock()
	done := make(chan struct{})
	go func() { sc.sm.Close(); close(done) }()
	select {
	case <-done:
	case <-time.After(5 * time.Second):
		sc.fail("C16:session-manager-close-blocked", "SessionManager.Close did not return within 5 s")
	}
	// parked pools are not closed by SessionManager.Close
	sc.sm.RLock()
	for _, p := range sc.sm.reservePools {
		if p != nil {
			p.close()
		}
	}
	sc.sm.RUnlock()
	sc.oldL.Close()
	if sc.newL != nil {
		sc.newL.Close()
	}
	os.Remove(sc.path)
}

func (sc *v16Scn) result() v16Case {
	c := v16Case{ID: sc.name, N: sc.n, Hist: sc.hist, Oracle: sc.oracle, Ambiguous: sc.ambiguous, Stats: sc.stats, Notes: sc.notes}
	for f := range sc.feat {
		c.Feat = append(c.Feat, f)
	}
	c.Stats["traffic_ok"] = sc.trafficOK
	c.Stats["get_err_before_old_close"] = sc.getErrA
	c.Stats["echo_err_before_old_close"] = sc.echoErrA
	c.Stats["get_err_after_old_close"] = sc.getErrB
	c.Stats["echo_err_new_sessions_after_old_close"] = sc.echoErrBNew
	c.Stats["events"] = int64(len(sc.hist))
	return c
}

// ------------------------------------------------------------------------------------------ driver actions

func v16hrCode(err error) int {
	switch {
	case err == nil:
		return 0
	case errors.Is(err, ErrHotRestartInProgress):
		return 1
	case errors.Is(err, ErrInHandshakeStage):
		return 2
	}
	return 3
}

func (sc *v16Scn) hotRestart(epoch uint64) int {
	sc.mu.Lock()
	defer sc.mu.Unlock()
	sc.observe()
	atomic.StoreInt32(&sc.mgrHRSeen, 0)
	err := sc.oldL.HotRestart(epoch)
	code := v16hrCode(err)
	sc.observe(v16Ev{K: "hr", E: int64(epoch), Res: code, T: sc.ms()})
	return code
}

// a foreign HotRestart(epoch) sent by server session i / a foreign ack sent by a client session
func (sc *v16Scn) injectRestart(i int, epoch uint64) {
	sc.mu.Lock()
	defer sc.mu.Unlock()
	sc.observe()
	_ = sc.srv[i].hotRestart(epoch, typeHotRestart)
	sc.hist = append(sc.hist, v16Ev{K: "ev", Nm: "SendRestart", I: i, E: int64(epoch), T: sc.ms()})
}

func (sc *v16Scn) injectAck(i int, from *Session, epoch uint64) {
	sc.mu.Lock()
	defer sc.mu.Unlock()
	sc.observe()
	_ = from.hotRestart(epoch, typeHotRestartAck)
	sc.hist = append(sc.hist, v16Ev{K: "ev", Nm: "SendAck", I: i, E: int64(epoch), T: sc.ms()})
}

func (sc *v16Scn) peek() *v16Obs {
	sc.mu.Lock()
	defer sc.mu.Unlock()
	return sc.observe()
}

// wait until neither side is in hotRestartState (the manager: after it has been seen in it, or after
// 600 ms without ever entering it); returns how long each side took (ms, -1 = never)
func (sc *v16Scn) waitExit(bound time.Duration) (lms, mms int64) {
	t := time.Now()
	lms, mms = -1, -1
	seenM := false
	for time.Since(t) < bound {
		el := int64(time.Since(t) / time.Millisecond)
		if lms < 0 && sc.oldL.IsHotRestartDone() {
			lms = el
		}
		sc.sm.RLock()
		st := sc.sm.state
		sc.sm.RUnlock()
		seenM = seenM || atomic.LoadInt32(&sc.mgrHRSeen) == 1
		if st == hotRestartState {
			seenM = true
			mms = -1
		} else if mms < 0 && (seenM || el > 600) {
			mms = el
		}
		if lms >= 0 && mms >= 0 {
			return
		}
		time.Sleep(5 * time.Millisecond)
	}
	return
}

const v16ExitBound = hotRestartCheckTimeout + 2500*time.Millisecond

func (sc *v16Scn) checkExit(tag string) bool {
	lms, mms := sc.waitExit(v16ExitBound)
	sc.setStat(tag+"_listener_exit_ms", lms)
	sc.setStat(tag+"_manager_exit_ms", mms)
	ok := true
	if lms < 0 {
		sc.fail("C16:listener-stuck-in-hot-restart-state", fmt.Sprintf("%s: IsHotRestartDone still false %v after HotRestart", tag, v16ExitBound))
		ok = false
	}
	if mms < 0 {
		sc.fail("C16:manager-stuck-in-hot-restart-state", fmt.Sprintf("%s: SessionManager.state still hotRestartState after %v", tag, v16ExitBound))
		ok = false
	}
	return ok
}

// everything went well: what the property promises
func (sc *v16Scn) checkCompleted(tag string, epoch uint64) {
	time.Sleep(150 * time.Millisecond) // acks on their way, listener's next tick
	sc.waitExit(v16ExitBound)
	o := sc.peek()
	if o.LState != int64(hotRestartDoneState) {
		sc.fail("C16:hand-over-not-completed-on-listener", fmt.Sprintf("%s: listener state %d, expected hotRestartDoneState", tag, o.LState))
	}
	if o.LAck != 0 {
		sc.fail("C16:ack-count-not-zero-after-completion", fmt.Sprintf("%s: hotRestartAckCount=%d", tag, o.LAck))
	}
	newNames := map[string]bool{}
	if sc.newL != nil {
		sc.newL.sessions.sessionMu.Lock()
		for s := range sc.newL.sessions.data {
			newNames[s.name] = true
		}
		sc.newL.sessions.sessionMu.Unlock()
	}
	for i := range o.Pools {
		if o.Pools[i][0] != int64(epoch) {
			sc.fail("C16:pool-not-on-announced-epoch", fmt.Sprintf("%s: pool %d holds epoch %d, announced %d", tag, i, o.Pools[i][0], epoch))
		}
		if o.Pools[i][1] != 1 {
			sc.fail("C16:pool-session-dead-after-hand-over", fmt.Sprintf("%s: pool %d", tag, i))
		}
		if !newNames[o.poolSess[i].name] {
			sc.fail("C16:pool-not-connected-to-new-server", fmt.Sprintf("%s: pool %d session %s is not in the new listener's table", tag, i, o.poolSess[i].name))
		}
		if o.Reserve[i] == nil {
			sc.fail("C16:old-session-not-parked", fmt.Sprintf("%s: pool %d has no reserve pool", tag, i))
		} else if o.Reserve[i][1] != 1 {
			sc.fail("C16:parked-session-closed-before-old-server-let-go", fmt.Sprintf("%s: pool %d", tag, i))
		}
	}
	if len(newNames) != len(o.Pools) {
		sc.fail("C16:new-server-session-count", fmt.Sprintf("%s: new listener has %d sessions for %d pools", tag, len(newNames), len(o.Pools)))
	}
}

// a failed hand-over: both sides back in defaultState, count 0, nothing parked
func (sc *v16Scn) checkTimedOut(tag string) *v16Obs {
	o := sc.peek()
	if o.LState != int64(defaultState) || o.MState != int64(defaultState) {
		sc.fail("C16:state-after-timeout", fmt.Sprintf("%s: listener %d manager %d", tag, o.LState, o.MState))
	}
	if o.LAck != 0 {
		sc.fail("C16:ack-count-not-reset-by-timeout", fmt.Sprintf("%s: %d", tag, o.LAck))
	}
	for i, r := range o.Reserve {
		if r != nil {
			sc.fail("C16:reserve-pools-kept-after-timeout", fmt.Sprintf("%s: pool %d", tag, i))
		}
	}
	for i, st := range o.LSess {
		if st != -1 && st != int64(defaultState) {
			sc.fail("C16:server-session-state-not-reset-by-timeout", fmt.Sprintf("%s: session %d state %d", tag, i, st))
		}
	}
	return o
}

func (sc *v16Scn) checkTrafficClean(tag string) {
	if sc.trafficOK == 0 {
		sc.fail("C16:no-traffic", tag+": not a single round trip succeeded")
	}
	if a := atomic.LoadInt64(&sc.getErrA) + atomic.LoadInt64(&sc.getErrB); a != 0 {
		sc.fail("C16:getstream-failed-during-hot-restart", fmt.Sprintf("%s: %d GetStream errors although no session was lost", tag, a))
	}
	if a := atomic.LoadInt64(&sc.echoErrA); a != 0 {
		sc.fail("C16:round-trip-failed-while-old-server-alive", fmt.Sprintf("%s: %d", tag, a))
	}
	if a := atomic.LoadInt64(&sc.echoErrBNew); a != 0 {
		sc.fail("C16:round-trip-failed-on-new-session", fmt.Sprintf("%s: %d", tag, a))
	}
	if sc.slowGet != 0 {
		sc.fail("C16:getstream-blocked", fmt.Sprintf("%s: %d GetStream calls took more than 1 s", tag, sc.slowGet))
	}
}

func (sc *v16Scn) closeOldAndSettle() {
	atomic.StoreInt32(&sc.phaseB, 1)
	time.Sleep(20 * time.Millisecond)
	sc.oldL.Close()
	// the parked sessions die with the old server; allow for the dispatcher's close latency
	dl := time.Now().Add(4 * time.Second)
	for time.Now().Before(dl) {
		o := sc.peek()
		alive := 0
		for _, r := range o.Reserve {
			if r != nil && r[1] == 1 {
				alive++
			}
		}
		if alive == 0 {
			break
		}
		time.Sleep(20 * time.Millisecond)
	}
	time.Sleep(100 * time.Millisecond)
}

func (sc *v16Scn) jitter(max int) { time.Sleep(time.Duration(sc.rng.intn(max+1)) * time.Millisecond) }

// ------------------------------------------------------------------------------------------ scenarios

func v16Happy(name string, n int, seed uint64, epoch uint64, twice bool) v16Case {
	sc, err := v16NewScn(name, n, seed, 60*time.Second)
	if err != nil {
		return v16Case{ID: name, N: n, Oracle: []string{"C16:harness-setup | " + err.Error()}, SkipModel: true}
	}
	sc.feat["all-delivered"] = true
	sc.feat[fmt.Sprintf("sessions-%d", n)] = true
	sc.startSampler()
	sc.startTraffic(2)
	time.Sleep(time.Duration(60+sc.rng.intn(80)) * time.Millisecond)
	if sc.newL, err = v16NewListener(sc.path); err != nil {
		sc.fail("C16:harness-setup", err.Error())
	}
	sc.jitter(30)
	if code := sc.hotRestart(epoch); code != 0 {
		sc.fail("C16:hot-restart-call-failed", fmt.Sprintf("HotRestart returned class %d", code))
	}
	if twice {
		sc.feat["second-call-while-in-progress"] = true
		if code := sc.hotRestart(epoch + 1); code != 1 && code != 0 {
			sc.fail("C16:hot-restart-call-failed", fmt.Sprintf("second HotRestart returned class %d", code))
		}
	}
	if sc.checkExit("first") {
		sc.checkCompleted("first", epoch)
	}
	if twice {
		// again after completion: every server session is in hotRestartDoneState, nothing is sent
		sc.feat["second-call-after-done"] = true
		before := sc.peek()
		if before.LState == int64(hotRestartDoneState) {
			code := sc.hotRestart(epoch + 2)
			if code != 0 {
				sc.fail("C16:hot-restart-call-failed", fmt.Sprintf("HotRestart after completion returned class %d", code))
			}
			sc.checkExit("again")
			after := sc.peek()
			for i := range after.poolSess {
				if after.poolSess[i] != before.poolSess[i] || after.resSess[i] != before.resSess[i] {
					sc.fail("C16:repeat-hot-restart-changed-pools", fmt.Sprintf("pool %d", i))
				}
			}
		}
	}
	time.Sleep(time.Duration(80+sc.rng.intn(80)) * time.Millisecond)
	sc.closeOldAndSettle()
	o := sc.peek()
	for i := range o.Pools {
		if o.Pools[i][1] != 1 || o.Pools[i][0] != int64(epoch) {
			sc.fail("C16:pool-lost-after-old-server-exit", fmt.Sprintf("pool %d epoch %d alive %d", i, o.Pools[i][0], o.Pools[i][1]))
		}
	}
	time.Sleep(100 * time.Millisecond)
	sc.stopAll()
	sc.checkTrafficClean("happy")
	return sc.result()
}

// A completed hand-over with an old server that keeps running (draining) for longer than the checkers'
// time-out: the old sessions must stay usable until the old server lets go.  A long-lived stream opened
// on an old session before the restart does round trips during the drain (answered by the old server),
// fresh GetStream streams are answered by the new server, the parked pools stay parked and alive.
func v16Drain(name string, n int, seed uint64, epoch uint64, extra time.Duration) v16Case {
	sc, err := v16NewScn(name, n, seed, 60*time.Second)
	if err != nil {
		return v16Case{ID: name, N: n, Oracle: []string{"C16:harness-setup | " + err.Error()}, SkipModel: true}
	}
	sc.feat["all-delivered"], sc.feat["old-server-drains-past-timeout"] = true, true
	sc.feat[fmt.Sprintf("sessions-%d", n)] = true
	sc.startSampler()
	sc.startTraffic(1)
	// the long-lived stream on an old session
	victim := int(seed % uint64(n))
	sc.sm.RLock()
	oldPool := sc.sm.pools[victim]
	sc.sm.RUnlock()
	oldSess := oldPool.Session()
	oldStream, err := oldSess.OpenStream()
	if err != nil {
		sc.fail("C16:harness-setup", "OpenStream on the old session: "+err.Error())
	}
	rt := func(tag string, k int) (rerr error) {
		// a stream of a session that was closed under it may touch unmapped shared memory
		defer debug.SetPanicOnFault(debug.SetPanicOnFault(true))
		defer func() {
			if p := recover(); p != nil {
				rerr = fmt.Errorf("fault while using the stream: %v", p)
			}
		}()
		msg := fmt.Sprintf("drain-%s-%d", tag, k)
		if err := oldStream.BufferWriter().WriteString(msg); err != nil {
			return err
		}
		if err := oldStream.Flush(false); err != nil {
			return err
		}
		_ = oldStream.SetReadDeadline(time.Now().Add(2 * time.Second))
		got, err := oldStream.BufferReader().ReadString(len(msg))
		if err != nil {
			return err
		}
		if got != msg {
			return fmt.Errorf("echo mismatch %q", got)
		}
		oldStream.ReleaseReadAndReuse()
		return nil
	}
	if oldStream != nil {
		if err := rt("before", 0); err != nil {
			sc.fail("C16:harness-setup", "round trip before the restart: "+err.Error())
		}
	}
	time.Sleep(time.Duration(40+sc.rng.intn(60)) * time.Millisecond)
	if sc.newL, err = v16NewListener(sc.path); err != nil {
		sc.fail("C16:harness-setup", err.Error())
	}
	t0 := time.Now()
	if code := sc.hotRestart(epoch); code != 0 {
		sc.fail("C16:hot-restart-call-failed", fmt.Sprintf("HotRestart returned class %d", code))
	}
	completed := false
	if sc.checkExit("first") {
		sc.checkCompleted("first", epoch)
		sc.mu.Lock()
		completed = len(sc.oracle) == 0
		sc.mu.Unlock()
	}
	// the old server drains: longer than the checkers' time-out, counted from the completed hand-over
	tDone := time.Now()
	hold := hotRestartCheckTimeout + extra
	sc.setStat("drain_ms", int64(hold/time.Millisecond))
	k := 0
	reported := map[string]bool{}
	once := func(sig, what string) {
		if !reported[sig] {
			reported[sig] = true
			sc.fail(sig, what)
		}
	}
	for completed && time.Since(tDone) < hold {
		k++
		at := time.Since(t0).Round(time.Millisecond)
		if oldSess.IsClosed() {
			once("C16:parked-session-closed-before-old-server-let-go", fmt.Sprintf("%v after HotRestart (hand-over completed, old server still running) the client has closed its old session of pool %d", at, victim))
			oldStream = nil // its shared memory is being unmapped
		}
		if oldStream != nil {
			if err := rt("during", k); err != nil {
				once("C16:old-session-unusable-before-old-server-let-go", fmt.Sprintf("%v after HotRestart (hand-over completed, old server still running): round trip on a stream of old session of pool %d failed: %v", at, victim, err))
				oldStream = nil
			}
		}
		o := sc.peek()
		for i := range o.Pools {
			if o.Reserve[i] == nil {
				once("C16:reserve-pools-dropped-after-completed-hand-over", fmt.Sprintf("%v after HotRestart: pool %d has no parked pool any more although the old server has not let go", at, i))
			} else if o.Reserve[i][1] != 1 {
				once("C16:parked-session-closed-before-old-server-let-go", fmt.Sprintf("%v after HotRestart: parked session of pool %d is closed although the old server has not let go", at, i))
			}
			if o.Pools[i][0] != int64(epoch) || o.Pools[i][1] != 1 {
				once("C16:pool-lost-during-drain", fmt.Sprintf("%v after HotRestart: pool %d epoch %d alive %d", at, i, o.Pools[i][0], o.Pools[i][1]))
			}
		}
		if o.MState != int64(defaultState) || o.LState != int64(hotRestartDoneState) {
			once("C16:state-changed-after-completed-hand-over", fmt.Sprintf("%v after HotRestart: listener %d manager %d", at, o.LState, o.MState))
		}
		time.Sleep(100 * time.Millisecond)
	}
	sc.setStat("drain_round_trips", int64(k))
	if oldStream != nil && !oldSess.IsClosed() {
		oldStream.Close()
	}
	sc.closeOldAndSettle()
	o := sc.peek()
	for i := range o.Pools {
		if o.Pools[i][1] != 1 || o.Pools[i][0] != int64(epoch) {
			sc.fail("C16:pool-lost-after-old-server-exit", fmt.Sprintf("pool %d epoch %d alive %d", i, o.Pools[i][0], o.Pools[i][1]))
		}
	}
	sc.stopAll()
	sc.checkTrafficClean("drain")
	return sc.result()
}

// the new server is not there (socket path gone): every dial fails, both sides time out; a second
// HotRestart call while in progress; a stale HotRestart event and a stale ack in the middle; then the
// new server appears and a second hand-over completes.
func v16DialFail(name string, n int, seed uint64, epoch uint64) v16Case {
	sc, err := v16NewScn(name, n, seed, 60*time.Second)
	if err != nil {
		return v16Case{ID: name, N: n, Oracle: []string{"C16:harness-setup | " + err.Error()}, SkipModel: true}
	}
	sc.feat["dial-fails"], sc.feat["timeout-both-sides"], sc.feat["stale-epoch-injected"] = true, true, true
	sc.feat["second-call-while-in-progress"], sc.feat["retry-after-timeout"] = true, true
	sc.startSampler()
	sc.startTraffic(2)
	time.Sleep(time.Duration(60+sc.rng.intn(60)) * time.Millisecond)
	os.Remove(sc.path)
	if code := sc.hotRestart(epoch); code != 0 {
		sc.fail("C16:hot-restart-call-failed", fmt.Sprintf("HotRestart returned class %d", code))
	}
	sc.jitter(20)
	if code := sc.hotRestart(epoch + 1); code != 1 {
		sc.fail("C16:second-hot-restart-not-rejected", fmt.Sprintf("class %d", code))
	}
	time.Sleep(time.Duration(250+sc.rng.intn(200)) * time.Millisecond)
	// stale / foreign epochs while the restart is in progress
	before := sc.peek()
	if before.LState == int64(hotRestartState) && before.MState == int64(hotRestartState) {
		sc.injectRestart(0, epoch+77)
		sc.injectAck(n-1, sc.sm.pools[n-1].Session(), epoch+55)
		time.Sleep(250 * time.Millisecond)
		after := sc.peek()
		same := after.LState == before.LState && after.LAck == before.LAck && after.LEpoch == before.LEpoch &&
			after.MState == before.MState && after.MEpoch == before.MEpoch
		for i := range before.LSess {
			same = same && before.LSess[i] == after.LSess[i]
		}
		for i := range before.poolSess {
			same = same && before.poolSess[i] == after.poolSess[i] && before.resSess[i] == after.resSess[i]
		}
		if !same {
			sc.fail("C16:stale-epoch-changed-state", fmt.Sprintf("before %+v after %+v", *before, *after))
		}
	} else {
		sc.setNote("stale", "restart no longer in progress when the stale events were due; skipped")
	}
	sc.checkExit("first")
	time.Sleep(150 * time.Millisecond)
	o := sc.checkTimedOut("first")
	for i := range o.Pools {
		if o.Pools[i][0] != 0 || o.Pools[i][1] != 1 {
			sc.fail("C16:pool-changed-by-failed-hand-over", fmt.Sprintf("pool %d epoch %d alive %d", i, o.Pools[i][0], o.Pools[i][1]))
		}
	}
	// the new server comes up, try again
	if sc.newL, err = v16NewListener(sc.path); err != nil {
		sc.fail("C16:harness-setup", err.Error())
	}
	sc.jitter(30)
	if code := sc.hotRestart(epoch + 2); code != 0 {
		sc.fail("C16:hot-restart-call-failed", fmt.Sprintf("retry returned class %d", code))
	}
	if sc.checkExit("retry") {
		sc.checkCompleted("retry", epoch+2)
	}
	sc.closeOldAndSettle()
	sc.stopAll()
	sc.checkTrafficClean("dialfail")
	return sc.result()
}

// one server-side session is killed right before the hand-over: the manager can never park all pools
func v16KillMid(name string, n int, seed uint64, epoch uint64, victim int) v16Case {
	sc, err := v16NewScn(name, n, seed, 60*time.Second)
	if err != nil {
		return v16Case{ID: name, N: n, Oracle: []string{"C16:harness-setup | " + err.Error()}, SkipModel: true}
	}
	sc.feat["session-killed"], sc.feat["partial-hand-over"] = true, true
	sc.startSampler()
	sc.startTraffic(2)
	time.Sleep(time.Duration(60+sc.rng.intn(60)) * time.Millisecond)
	if sc.newL, err = v16NewListener(sc.path); err != nil {
		sc.fail("C16:harness-setup", err.Error())
	}
	atomic.StoreInt32(&sc.killed, 1)
	sc.srv[victim].Close()
	sc.jitter(10)
	if code := sc.hotRestart(epoch); code != 0 {
		sc.fail("C16:hot-restart-call-failed", fmt.Sprintf("HotRestart returned class %d", code))
	}
	sc.checkExit("first")
	time.Sleep(200 * time.Millisecond)
	o := sc.checkTimedOut("first")
	for i := range o.Pools {
		if i == victim {
			continue
		}
		if o.Pools[i][0] != int64(epoch) || o.Pools[i][1] != 1 {
			sc.fail("C16:surviving-pool-not-on-announced-epoch", fmt.Sprintf("pool %d epoch %d alive %d", i, o.Pools[i][0], o.Pools[i][1]))
		}
	}
	// the victim's client end notices within the dispatcher's close latency; GetStream on it must fail fast
	dl := time.Now().Add(4 * time.Second)
	for time.Now().Before(dl) {
		if o = sc.peek(); o.Pools[victim][1] == 0 {
			break
		}
		time.Sleep(20 * time.Millisecond)
	}
	sc.closeOldAndSettle()
	sc.stopAll()
	if sc.trafficOK == 0 {
		sc.fail("C16:no-traffic", "not a single round trip succeeded")
	}
	if sc.slowGet != 0 {
		sc.fail("C16:getstream-blocked", fmt.Sprintf("%d GetStream calls took more than 1 s", sc.slowGet))
	}
	return sc.result()
}

// the ack of a slow client arrives after the listener's time-out: sent by the real client session over
// the real connection, handled by the real handleHotRestartAck
func v16LateAck(name string, n int, seed uint64, epoch uint64) v16Case {
	sc, err := v16NewScn(name, n, seed, 60*time.Second)
	if err != nil {
		return v16Case{ID: name, N: n, Oracle: []string{"C16:harness-setup | " + err.Error()}, SkipModel: true}
	}
	sc.feat["dial-fails"], sc.feat["late-ack"] = true, true
	sc.startSampler()
	sc.startTraffic(1)
	time.Sleep(60 * time.Millisecond)
	os.Remove(sc.path)
	if code := sc.hotRestart(epoch); code != 0 {
		sc.fail("C16:hot-restart-call-failed", fmt.Sprintf("HotRestart returned class %d", code))
	}
	sc.checkExit("first")
	time.Sleep(150 * time.Millisecond)
	sc.checkTimedOut("first")
	sc.injectAck(0, sc.sm.pools[0].Session(), epoch)
	time.Sleep(300 * time.Millisecond)
	o := sc.peek()
	sc.setStat("ack_count_after_late_ack", o.LAck)
	if o.LAck < 0 {
		sc.fail("C16:late-ack-after-timeout-makes-ack-count-negative",
			fmt.Sprintf("HotRestart(%d) timed out on the listener (resetState: count 0); the client's ack for epoch %d arrived afterwards; hotRestartAckCount=%d", epoch, epoch, o.LAck))
	}
	// consequence for the next hand-over
	if sc.newL, err = v16NewListener(sc.path); err != nil {
		sc.fail("C16:harness-setup", err.Error())
	}
	if code := sc.hotRestart(epoch + 1); code != 0 {
		sc.fail("C16:hot-restart-call-failed", fmt.Sprintf("retry returned class %d", code))
	}
	if sc.checkExit("retry") && o.LAck >= 0 {
		// the late ack was ignored: the next hand-over must be a normal, complete one
		if o.LSess[0] != int64(defaultState) {
			sc.fail("C16:late-ack-changed-server-session-state", fmt.Sprintf("server session 0 in state %d after an ack handled outside hotRestartState", o.LSess[0]))
		}
		sc.checkCompleted("retry", epoch+1)
	}
	time.Sleep(200 * time.Millisecond)
	o2 := sc.peek()
	sc.setStat("retry_listener_state", o2.LState)
	sc.setStat("retry_ack_count", o2.LAck)
	swapped := 0
	for i := range o2.Pools {
		if o2.Pools[i][0] == int64(epoch+1) {
			swapped++
		}
	}
	sc.setStat("retry_pools_swapped", int64(swapped))
	if o.LAck < 0 && swapped == len(o2.Pools) && o2.LState != int64(hotRestartDoneState) {
		sc.setNote("next-restart", fmt.Sprintf("all %d pools moved to epoch %d and acknowledged, yet the listener ended in state %d (time-out) with count %d", swapped, epoch+1, o2.LState, o2.LAck))
	} else if o.LAck < 0 {
		sc.setNote("next-restart", fmt.Sprintf("listener state %d count %d, %d/%d pools swapped", o2.LState, o2.LAck, swapped, len(o2.Pools)))
	}
	sc.closeOldAndSettle()
	sc.stopAll()
	return sc.result()
}

// latent: Listener.HotRestart's `return ErrInHandshakeStage` leaves state = hotRestartState and starts
// no checker.  Not reachable through Listener.Run (a session enters the table after its handshake);
// shown here on an artificially cleared flag.
func v16EarlyReturn(name string, seed uint64) v16Case {
	sc, err := v16NewScn(name, 1, seed, 60*time.Second)
	if err != nil {
		return v16Case{ID: name, N: 1, Oracle: []string{"C16:harness-setup | " + err.Error()}, SkipModel: true}
	}
	sc.feat["artificial-handshake-flag"] = true
	sc.oldL.mu.Lock()
	sc.srv[0].handshakeDone = false
	sc.oldL.mu.Unlock()
	err = sc.oldL.HotRestart(4242)
	code1 := v16hrCode(err)
	time.Sleep(hotRestartCheckTimeout + 700*time.Millisecond)
	done := sc.oldL.IsHotRestartDone()
	sc.oldL.mu.Lock()
	sc.srv[0].handshakeDone = true
	sc.oldL.mu.Unlock()
	code2 := v16hrCode(sc.oldL.HotRestart(4243))
	sc.setNote("early-return", fmt.Sprintf("HotRestart with an un-handshaked session in the table: result class %d; IsHotRestartDone %v after %v; next HotRestart result class %d",
		code1, done, hotRestartCheckTimeout+700*time.Millisecond, code2))
	sc.setStat("stuck", v16b(code1 == 2 && !done && code2 == 1))
	// unstick for clean-up
	sc.oldL.resetState()
	close(sc.stopSampler)
	close(sc.samplerDone)
	sc.stopSampler, sc.samplerDone = make(chan struct{}), make(chan struct{})
	close(sc.samplerDone)
	sc.stopAll()
	c := sc.result()
	c.SkipModel = true
	c.Hist = nil
	c.Oracle = nil
	return c
}

// ------------------------------------------------------------------------------------------ the test

func TestVerif_C16(t *testing.T) {
	v16patch()
	out := vopenOut(t)
	defer out.close()
	seed := uint64(venvInt("VERIF_SEED", 1))
	rounds := venvInt("VERIF_N", 1)
	for r := 0; r < rounds; r++ {
		rs := seed*1000 + uint64(r)
		rng := newVrand(rs)
		ep := func() uint64 { return uint64(2 + rng.intn(1<<20)) }
		type job func() v16Case
		tag := func(s string) string { return fmt.Sprintf("r%d_%s", r, s) }
		jobs := []job{
			func(e uint64) job { return func() v16Case { return v16Happy(tag("happy1"), 1, rs+1, e, false) } }(ep()),
			func(e uint64) job { return func() v16Case { return v16Happy(tag("happy2"), 2, rs+2, e, true) } }(ep()),
			func(e uint64) job { return func() v16Case { return v16Happy(tag("happy3"), 3, rs+3, e, false) } }(ep()),
			func(e uint64) job { return func() v16Case { return v16Happy(tag("happy4"), 4, rs+4, e, false) } }(ep()),
			func(e uint64, n int) job { return func() v16Case { return v16DialFail(tag("dialfail"), n, rs+5, e) } }(ep(), 2+rng.intn(2)),
			func(e uint64, v int) job { return func() v16Case { return v16KillMid(tag("killmid"), 3, rs+6, e, v) } }(ep(), rng.intn(3)),
			func(e uint64) job { return func() v16Case { return v16LateAck(tag("lateack"), 2, rs+7, e) } }(ep()),
			func(e uint64, x int) job {
				return func() v16Case { return v16Drain(tag("drain1"), 1, rs+9, e, time.Duration(500+x)*time.Millisecond) }
			}(ep(), rng.intn(500)),
			func(e uint64, x int) job {
				return func() v16Case { return v16Drain(tag("drain3"), 3, rs+10, e, time.Duration(1000+x)*time.Millisecond) }
			}(ep(), rng.intn(500)),
		}
		if r == 0 {
			jobs = append(jobs, func() v16Case { return v16EarlyReturn(tag("earlyreturn"), rs+8) })
		}
		res := make([]v16Case, len(jobs))
		var wg sync.WaitGroup
		for i := range jobs {
			wg.Add(1)
			go func(i int) {
				defer wg.Done()
				defer func() {
					if p := recover(); p != nil {
						res[i] = v16Case{ID: fmt.Sprintf("job%d", i), Oracle: []string{fmt.Sprintf("C16:harness-panic | %v", p)}, SkipModel: true}
					}
				}()
				res[i] = jobs[i]()
			}(i)
			time.Sleep(15 * time.Millisecond)
		}
		wg.Wait()
		for _, c := range res {
			out.emit(c)
		}
	}
}
