//go:build verif

package shmipc

// C06 — a stream is a faithful byte pipe whatever the write and read granularity.
// Level (i) correspondence + oracle harness: see c06_common_test.go.

import "testing"

func TestVerif_C06(t *testing.T) {
	out := vopenOut(t)
	defer out.close()
	rng := newVrand(uint64(venvInt("VERIF_SEED", 1)))
	n := venvInt("VERIF_N", 400)
	for i := 0; i < n; i++ {
		out.emit(vpGenCase(rng, i, "c06"))
	}
	// level (ii): real session pairs, every flush through the socket fallback, lagging reader
	n2 := venvInt("VERIF_N2", n/10)
	vsRun(out, newVrand(uint64(venvInt("VERIF_SEED", 1))+0x51), n2, n, "c06s")
	// level (ii), mixed transport: socket-sized and shm-sized flushes of one stream while the receiver is busy
	vsMixedRun(out, newVrand(uint64(venvInt("VERIF_SEED", 1))+0x6D), venvInt("VERIF_N3", (n2+3)/4), n+n2)
}
