//go:build verif

package shmipc

// Mechanism G (DESIGN.md §2.2): the translator that regenerates the parameters of the Coq models
// from /repo's current source.  Named constants are printed with the value the compiler uses;
// literals that are not named constants (field offsets inside the shared-memory headers, retry
// bounds) are recovered by pattern-matching the AST of the current source files.  An unknown shape
// is reported as an error, never guessed.

import (
	"encoding/json"
	"fmt"
	"go/ast"
	"go/parser"
	"go/token"
	"os"
	"strconv"
	"testing"
)

type genOut struct {
	Consts  map[string]int64            `json:"consts"`
	Offsets map[string]map[string]int64 `json:"offsets"`
	Errors  []string                    `json:"errors"`
}

func genIntLit(e ast.Expr) (int64, bool) {
	switch v := e.(type) {
	case *ast.BasicLit:
		if v.Kind == token.INT {
			n, err := strconv.ParseInt(v.Value, 0, 64)
			return n, err == nil
		}
	case *ast.ParenExpr:
		return genIntLit(v.X)
	}
	return 0, false
}

// offset literal in an index expression  x[base+K]  or x[K]
func genIndexOffset(e ast.Expr) (int64, bool) {
	switch v := e.(type) {
	case *ast.BinaryExpr:
		if v.Op == token.ADD {
			if n, ok := genIntLit(v.Y); ok {
				return n, true
			}
		}
	case *ast.BasicLit:
		return genIntLit(v)
	}
	return 0, false
}

// (*T)(unsafe.Pointer(&mem[IDX]))  ->  IDX
func genUnsafeIndex(e ast.Expr) (ast.Expr, bool) {
	call, ok := e.(*ast.CallExpr)
	if !ok || len(call.Args) != 1 {
		return nil, false
	}
	inner, ok := call.Args[0].(*ast.CallExpr)
	if !ok || len(inner.Args) != 1 {
		return nil, false
	}
	un, ok := inner.Args[0].(*ast.UnaryExpr)
	if !ok || un.Op != token.AND {
		return nil, false
	}
	ix, ok := un.X.(*ast.IndexExpr)
	if !ok {
		return nil, false
	}
	return ix.Index, true
}

func genFieldOffsets(fn *ast.FuncDecl, typeName string, armBranch bool) map[string]int64 {
	// find composite literals &typeName{...}; when several exist (arm / non-arm) take the last
	// one (the non-arm branch of mappingQueueFromBytes) unless armBranch.
	var lits []*ast.CompositeLit
	ast.Inspect(fn, func(n ast.Node) bool {
		if cl, ok := n.(*ast.CompositeLit); ok {
			if id, ok := cl.Type.(*ast.Ident); ok && id.Name == typeName {
				lits = append(lits, cl)
			}
		}
		return true
	})
	if len(lits) == 0 {
		return nil
	}
	cl := lits[len(lits)-1]
	if armBranch {
		cl = lits[0]
	}
	res := map[string]int64{}
	for _, el := range cl.Elts {
		kv, ok := el.(*ast.KeyValueExpr)
		if !ok {
			continue
		}
		key, ok := kv.Key.(*ast.Ident)
		if !ok {
			continue
		}
		if idx, ok := genUnsafeIndex(kv.Value); ok {
			if n, ok := genIndexOffset(idx); ok {
				res[key.Name] = n
			}
		}
	}
	return res
}

func TestVerif_GenConsts(t *testing.T) {
	out := genOut{Consts: map[string]int64{}, Offsets: map[string]map[string]int64{}}
	c := out.Consts
	c["bufferHeaderSize"] = bufferHeaderSize
	c["bufferCapOffset"] = bufferCapOffset
	c["bufferSizeOffset"] = bufferSizeOffset
	c["bufferDataStartOffset"] = bufferDataStartOffset
	c["nextBufferOffset"] = nextBufferOffset
	c["bufferFlagOffset"] = bufferFlagOffset
	c["bufferListHeaderSize"] = bufferListHeaderSize
	c["bufferManagerHeaderSize"] = bufferManagerHeaderSize
	c["bmCapOffset"] = bmCapOffset
	c["hasNextBufferFlag"] = hasNextBufferFlag
	c["sliceInUsedFlag"] = sliceInUsedFlag
	c["queueHeaderLength"] = queueHeaderLength
	c["queueElementLen"] = queueElementLen
	c["queueCount"] = queueCount
	c["headerSize"] = headerSize
	c["magicNumber"] = int64(magicNumber)
	c["protoVersion"] = int64(protoVersion)
	c["maxSupportProtoVersion"] = int64(maxSupportProtoVersion)
	c["typeShareMemoryByFilePath"] = int64(typeShareMemoryByFilePath)
	c["typePolling"] = int64(typePolling)
	c["typeStreamClose"] = int64(typeStreamClose)
	c["typeFallbackData"] = int64(typeFallbackData)
	c["typeExchangeProtoVersion"] = int64(typeExchangeProtoVersion)
	c["typeShareMemoryByMemfd"] = int64(typeShareMemoryByMemfd)
	c["typeAckShareMemory"] = int64(typeAckShareMemory)
	c["typeAckReadyRecvFD"] = int64(typeAckReadyRecvFD)
	c["typeHotRestart"] = int64(typeHotRestart)
	c["typeHotRestartAck"] = int64(typeHotRestartAck)
	c["minEventType"] = int64(minEventType)
	c["maxEventType"] = int64(maxEventType)
	c["streamOpened"] = int64(streamOpened)
	c["streamClosed"] = int64(streamClosed)
	c["streamHalfClosed"] = int64(streamHalfClosed)
	c["streamLocalHalfClosed"] = int64(streamLocalHalfClosed)
	c["defaultState"] = int64(defaultState)
	c["hotRestartState"] = int64(hotRestartState)
	c["hotRestartDoneState"] = int64(hotRestartDoneState)
	c["epochIDLen"] = epochIDLen
	c["defaultSingleBufferSize"] = defaultSingleBufferSize
	c["callbackDefault"] = int64(callbackDefault)
	c["callbackWaitExit"] = int64(callbackWaitExit)
	c["memfdCount"] = memfdCount
	c["memfdDataLen"] = memfdDataLen
	c["MemMapTypeDevShmFile"] = int64(MemMapTypeDevShmFile)
	c["MemMapTypeMemFd"] = int64(MemMapTypeMemFd)
	for v, f := range protocolVersionInitializersFactory {
		c[fmt.Sprintf("initializerVersion_%d", v)] = int64(f(nil, nil).Version())
	}
	c["protocolHandlersLen"] = int64(len(protocolHandlers))
	for i, h := range protocolHandlers {
		v := int64(0)
		if h != nil {
			v = 1
		}
		c[fmt.Sprintf("handlerPresent_%d", i)] = v
	}

	fset := token.NewFileSet()
	parse := func(name string) *ast.File {
		f, err := parser.ParseFile(fset, name, nil, 0)
		if err != nil {
			out.Errors = append(out.Errors, "parse "+name+": "+err.Error())
			return nil
		}
		return f
	}
	funcs := map[string]*ast.FuncDecl{}
	for _, name := range []string{"buffer_manager.go", "queue.go", "stream.go"} {
		f := parse(name)
		if f == nil {
			continue
		}
		for _, d := range f.Decls {
			if fd, ok := d.(*ast.FuncDecl); ok {
				n := fd.Name.Name
				if fd.Recv != nil && len(fd.Recv.List) == 1 {
					switch rt := fd.Recv.List[0].Type.(type) {
					case *ast.StarExpr:
						if id, ok := rt.X.(*ast.Ident); ok {
							n = id.Name + "." + n
						}
					case *ast.Ident:
						n = rt.Name + "." + n
					}
				}
				funcs[n] = fd
			}
		}
	}
	need := func(fn, typ, key string) {
		fd := funcs[fn]
		if fd == nil {
			out.Errors = append(out.Errors, "function not found: "+fn)
			return
		}
		m := genFieldOffsets(fd, typ, false)
		if len(m) == 0 {
			out.Errors = append(out.Errors, "no field offsets recognised in "+fn)
			return
		}
		out.Offsets[key] = m
	}
	need("createFreeBufferList", "bufferList", "create_list")
	need("mappingFreeBufferList", "bufferList", "map_list")
	need("mappingQueueFromBytes", "queue", "map_queue")

	// which half of the queue mapping each side uses:  sendQueue: f(mem[:x/2]) -> 0 (lower), f(mem[x/2:]) -> 1 (upper)
	for _, fn := range []string{"createQueueManager", "createQueueManagerWithMemFd", "mappingQueueManager", "mappingQueueManagerMemfd"} {
		fd := funcs[fn]
		if fd == nil {
			out.Errors = append(out.Errors, "function not found: "+fn)
			continue
		}
		m := map[string]int64{}
		ast.Inspect(fd, func(n ast.Node) bool {
			cl, ok := n.(*ast.CompositeLit)
			if !ok {
				return true
			}
			if id, ok := cl.Type.(*ast.Ident); !ok || id.Name != "queueManager" {
				return true
			}
			for _, el := range cl.Elts {
				kv, ok := el.(*ast.KeyValueExpr)
				if !ok {
					continue
				}
				key, ok := kv.Key.(*ast.Ident)
				if !ok || (key.Name != "sendQueue" && key.Name != "recvQueue") {
					continue
				}
				call, ok := kv.Value.(*ast.CallExpr)
				if !ok || len(call.Args) == 0 {
					continue
				}
				se, ok := call.Args[0].(*ast.SliceExpr)
				if !ok {
					continue
				}
				if se.Low == nil && se.High != nil {
					m[key.Name] = 0
				} else if se.Low != nil && se.High == nil {
					m[key.Name] = 1
				}
			}
			return true
		})
		if len(m) != 2 {
			out.Errors = append(out.Errors, "queue halves not recognised in "+fn)
			continue
		}
		out.Offsets["halves_"+fn] = m
	}
	// the percent base in createBufferManager:  bufferRegionCap*uint64(pair.Percent)/N  and  sumPercent > N
	if fd := funcs["createBufferManager"]; fd != nil {
		ast.Inspect(fd, func(n ast.Node) bool {
			if be, ok := n.(*ast.BinaryExpr); ok {
				if v, ok := genIntLit(be.Y); ok {
					if be.Op == token.QUO {
						if _, isBin := be.X.(*ast.BinaryExpr); isBin {
							c["percentDivisor"] = v
						}
					}
					if be.Op == token.GTR {
						c["percentSumMax"] = v
					}
				}
			}
			return true
		})
		if _, ok := c["percentDivisor"]; !ok {
			out.Errors = append(out.Errors, "percent divisor not recognised in createBufferManager")
		}
		if _, ok := c["percentSumMax"]; !ok {
			out.Errors = append(out.Errors, "percent sum bound not recognised in createBufferManager")
		}
	}

	// retry bound of bufferList.pop:  for i := 0; i < N; i++
	if fd := funcs["bufferList.pop"]; fd != nil {
		found := false
		ast.Inspect(fd, func(n ast.Node) bool {
			if fs, ok := n.(*ast.ForStmt); ok && fs.Cond != nil {
				if be, ok := fs.Cond.(*ast.BinaryExpr); ok && be.Op == token.LSS {
					if v, ok := genIntLit(be.Y); ok && !found {
						c["popRetryBound"] = v
						found = true
					}
				}
			}
			return true
		})
		if !found {
			out.Errors = append(out.Errors, "pop retry bound not recognised")
		}
	} else {
		out.Errors = append(out.Errors, "function not found: bufferList.pop")
	}
	// retry bound of Stream.Flush:  for i := 0; err == ErrQueueFull && i < N; i++
	if fd := funcs["Stream.Flush"]; fd != nil {
		found := false
		ast.Inspect(fd, func(n ast.Node) bool {
			if fs, ok := n.(*ast.ForStmt); ok && fs.Cond != nil {
				ast.Inspect(fs.Cond, func(m ast.Node) bool {
					if be, ok := m.(*ast.BinaryExpr); ok && be.Op == token.LSS {
						if v, ok := genIntLit(be.Y); ok && !found {
							c["flushRetryBound"] = v
							found = true
						}
					}
					return true
				})
			}
			return true
		})
		if !found {
			out.Errors = append(out.Errors, "flush retry bound not recognised")
		}
	}

	p := os.Getenv("VERIF_OUT")
	if p == "" {
		t.Fatal("VERIF_OUT not set")
	}
	b, _ := json.MarshalIndent(out, "", " ")
	if err := os.WriteFile(p, b, 0o644); err != nil {
		t.Fatal(err)
	}
}
