//go:build verif

package shmipc

// C08, callback mode on REAL session pairs: OnData keeps the results of ReadBytes / Peek (zero copy)
// past its return; the peer closes its end (the stream becomes half closed) while the callback
// goroutine is running or right after; an unrelated owner allocates every free slot and fills it;
// the kept results are compared with their private copies.  Only the holder's own
// ReleasePreviousRead / Close may end them (variant "local": the holder closes inside OnData: the
// results legitimately die, nothing is compared afterwards).  Oracle only (no model comparison: the
// histories are driven by the library's callback goroutine); the model side is the theorem
// C08_lease_survives_peer_close and the sweep condition translated into Gen/SwitchC08.v.

import (
	"fmt"
	"sync/atomic"
	"time"
)

type vcCB struct {
	stream     *Stream
	rng        *vrand
	sliceCap   int
	waitClose  bool // stay inside OnData until the peer's close has been seen
	localClose bool // the holder itself closes the stream inside OnData
	kept       chan []vpHeld
	readDone   chan struct{}
	once       bool
}

func (c *vcCB) OnData(reader BufferReader) {
	if c.once {
		// later arrivals: consume
		reader.Discard(reader.Len())
		return
	}
	c.once = true
	var res []vpHeld
	for reader.Len() > 0 {
		n := 1 + c.rng.intn(c.sliceCap)
		if reader.Len() < n {
			n = reader.Len()
		}
		if c.rng.chance(25) {
			if b, err := reader.Peek(n); err == nil {
				res = append(res, vpHeld{data: b, want: append([]byte(nil), b...)})
			}
		}
		b, err := reader.ReadBytes(n)
		if err != nil {
			break
		}
		res = append(res, vpHeld{data: b, want: append([]byte(nil), b...)})
	}
	close(c.readDone)
	if c.waitClose {
		dl := time.Now().Add(10 * time.Second)
		for c.stream.IsOpen() && time.Now().Before(dl) {
			time.Sleep(200 * time.Microsecond)
		}
	}
	if c.localClose {
		c.stream.Close()
	}
	c.kept <- res
}
func (c *vcCB) OnLocalClose()  {}
func (c *vcCB) OnRemoteClose() {}

func vcCase(client, server *Session, rng *vrand, id int) *vpCase {
	c := &vpCase{ID: id, Mode: "c08cb", Cfg: [][2]int{}, Ops: []vpOp{}, Obs: []vpObs{}}
	fail := func(sig, what string) { c.Oracle = append(c.Oracle, sig+"|"+what) }
	bm := server.bufferManager
	total := bm.sliceSize()
	sliceCap := int(*bm.lists[0].capPerBuffer)
	n := 1 + rng.intn(3*sliceCap+200)
	cs, err := client.OpenStream()
	if err != nil {
		fail("harness", "OpenStream: "+err.Error())
		return c
	}
	if _, err = cs.BufferWriter().WriteBytes(vpKeyed(id*7, n)); err == nil {
		err = cs.Flush(false)
	}
	if err != nil {
		fail("harness", "write: "+err.Error())
		return c
	}
	ss, err := server.AcceptStream()
	if err != nil {
		fail("harness", "AcceptStream: "+err.Error())
		return c
	}
	variant := rng.intn(10)
	cb := &vcCB{stream: ss, rng: rng, sliceCap: sliceCap, kept: make(chan []vpHeld, 1), readDone: make(chan struct{}),
		waitClose: variant < 5, localClose: variant == 9}
	c.Feat = append(c.Feat, map[bool]string{true: "peer-close-during-OnData", false: "peer-close-after-OnData"}[cb.waitClose])
	if cb.localClose {
		c.Feat = append(c.Feat, "local-close-in-OnData")
	}
	if err = ss.SetCallbacks(cb); err != nil {
		fail("harness", "SetCallbacks: "+err.Error())
		return c
	}
	select {
	case <-cb.readDone:
	case <-time.After(10 * time.Second):
		fail("harness", "OnData was not called")
		return c
	}
	if err = cs.Close(); err != nil { // write - flush - close client
		fail("harness", "peer close: "+err.Error())
	}
	var kept []vpHeld
	select {
	case kept = <-cb.kept:
	case <-time.After(15 * time.Second):
		fail("harness", "OnData did not return")
		return c
	}
	// the peer's close has been processed and the callback goroutine is done
	vsWait(func() bool { return !ss.IsOpen() && atomic.LoadUint32(&ss.callbackInProcess) == 0 }, 10*time.Second)
	ss.asyncGoroutineWg.Wait()
	time.Sleep(time.Millisecond)
	if !cb.localClose {
		if ss.getStreamState() == uint32(streamClosed) {
			fail("harness", "the holder's stream is closed although it never closed it")
			return c
		}
		// another owner takes every free slot, scribbles over it and gives it back
		var held []*bufferSlice
		for _, l := range bm.lists {
			for {
				b, e := l.pop()
				if e != nil {
					break
				}
				held = append(held, b)
			}
		}
		for _, b := range held {
			for i := range b.data {
				b.data[i] = 0xEE
			}
		}
		for _, b := range held {
			bm.recycleBuffer(b)
		}
		for i, h := range kept {
			if !vpEq(h.data, h.want) {
				fail("C08:zero-copy-result-changed-after-the-peer-closed-before-release",
					fmt.Sprintf("result #%d (%d bytes) of OnData changed after the peer's close and an unrelated allocation; the holder neither released nor closed", i, len(h.want)))
				break
			}
		}
		c.Feat = append(c.Feat, "kept-results-rechecked")
	}
	ss.BufferReader().ReleasePreviousRead()
	ss.Close()
	if !vsWait(func() bool { return bm.sliceSize() == total }, 5*time.Second) {
		fail("C08:slots-not-free-after-release-and-close-in-callback-mode", fmt.Sprintf("%d of %d slots free", bm.sliceSize(), total))
	}
	return c
}

func vcRun(out *vout, rng *vrand, n, firstID int) {
	if n <= 0 {
		return
	}
	debugMode = true
	conf := testConf()
	conf.ShareMemoryBufferCap = 1 << 20
	conf.BufferSliceSizes = []*SizePercentPair{{Size: defaultSingleBufferSize, Percent: 100}}
	clientConn, serverConn := testConn()
	var server *Session
	var serr error
	ok := make(chan struct{})
	go func() {
		sc := *conf
		server, serr = newSession(&sc, serverConn, false)
		close(ok)
	}()
	cc := *conf
	client, err := newSession(&cc, clientConn, true)
	<-ok
	if err != nil || serr != nil {
		out.emit(&vpCase{ID: firstID, Mode: "c08cb", Cfg: [][2]int{}, Oracle: []string{fmt.Sprintf("harness|cannot build the session pair: %v %v", err, serr)}})
		return
	}
	for i := 0; i < n; i++ {
		out.emit(vcCase(client, server, rng, firstID+i))
	}
	client.Close()
	server.Close()
}
