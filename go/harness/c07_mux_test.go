//go:build verif

package shmipc

// C07 harness (mechanism T + three directed replays).
//
// Real client/server session pairs over a unix socket pair; 2-6 streams; keyed messages (every message
// carries stream id, direction, sequence number and a body that is a function of them); shared-memory
// exhaustion is induced by the harness holding every free slot of the buffer manager, which makes the
// next Flush of a stream switch to the socket fallback (sticky).  Generated scenarios run one operation
// at a time with a wait for quiescence, plus bursts of concurrent writers / closers.  ORACLE, per stream
// and direction: what the reader gets is exactly the sequence of successfully flushed messages, nothing
// from another stream, and ErrEndOfStream only after everything flushed before the peer's Close.
//
// Directed replays of the three ordering races of DESIGN.md §5/C07 (each reported under a stable
// signature): (a) close element overtakes fallback data, (b) fallback event overtakes a wake-up that
// was published (markWorking) but not yet written, (c) callback mode: data flushed right before the
// peer's close is never offered to OnData.

import (
	"encoding/binary"
	"fmt"
	"os"
	"sync"
	"sync/atomic"
	"testing"
	"time"
	"unsafe"
)

type c07Msg struct {
	Stream uint32 `json:"stream"`
	Dir    int    `json:"dir"` // 0 = client->server, 1 = server->client
	Seq    int    `json:"seq"`
	Via    string `json:"via,omitempty"` // writer side: "shm" | "sock"
	End    bool   `json:"end,omitempty"` // reader side: ErrEndOfStream observed at this position
}

type c07Pipe struct {
	Stream   uint32   `json:"stream"`
	Dir      int      `json:"dir"`
	Flushed  []c07Msg `json:"flushed"` // successful flushes, in flush order
	Failed   []string `json:"failed"`  // flushes that returned an error (class)
	Maybe    []int    `json:"maybe,omitempty"` // flushes that timed out: delivery undetermined, neither required nor forbidden
	Closed   bool     `json:"closed"`  // the writer closed the stream after its last flush
	CloseVia string   `json:"close_via,omitempty"`
	Got      []c07Msg `json:"got"` // what the reader was offered, in order (End entries = end of stream)
	Garbage  string   `json:"garbage,omitempty"`
	// the reader's own side closed the stream (it was the writer of the opposite direction): from then on
	// its reads end locally and unread data is dropped by design; only isolation/order/duplication are judged
	ReaderClosed bool `json:"reader_closed,omitempty"`
	sib          *c07Pipe
	w, r         *Stream
	seq      int
	mu       sync.Mutex
}

// structured history for the correspondence with the model (sequential and directed scenarios)
type c07Op struct {
	Stream uint32 `json:"stream"`
	Dir    int    `json:"dir"`
	Kind   string `json:"kind"` // "w" | "c"
	Via    string `json:"via"`
	Ok     bool   `json:"ok"`
	Err    string `json:"err,omitempty"`
}

var c07Log struct {
	sync.Mutex
	ops []c07Op
}

// set while a burst scenario runs (several writers put concurrently)
var c07Concurrent bool

func c07LogOp(o c07Op) {
	c07Log.Lock()
	c07Log.ops = append(c07Log.ops, o)
	c07Log.Unlock()
}
func c07TakeLog() []c07Op {
	c07Log.Lock()
	defer c07Log.Unlock()
	o := c07Log.ops
	c07Log.ops = nil
	return o
}

type c07Fail struct {
	Sig  string `json:"sig"`
	What string `json:"what"`
}

type c07Case struct {
	ID     int        `json:"id"`
	Kind   string     `json:"kind"`
	Ops    []string   `json:"ops"`
	Hist   []c07Op    `json:"hist"`
	Pipes  []*c07Pipe `json:"pipes"`
	Oracle []c07Fail  `json:"oracle"`
	Feat   []string   `json:"feat"`
	Notes  []string   `json:"notes,omitempty"`
	Reader *c07Reader `json:"reader,omitempty"` // driver families of the synchronous reader: history for the model
}

// history of one readMore call against the dispatcher, in the vocabulary of Model/MuxReader.v
type c07Reader struct {
	Acts  []string `json:"acts"`
	Min   int      `json:"min"`
	First string   `json:"first"` // what the blocking read returned: "ok" | "eos" | "timeout" | ...
}

const c07HdrLen = 16

func c07Payload(stream uint32, dir, seq, n int) []byte {
	b := make([]byte, c07HdrLen+n)
	binary.BigEndian.PutUint16(b[0:2], 0xC7A5)
	binary.BigEndian.PutUint32(b[2:6], stream)
	b[6] = byte(dir)
	binary.BigEndian.PutUint32(b[7:11], uint32(seq))
	binary.BigEndian.PutUint32(b[11:15], uint32(n))
	b[15] = 0x5A
	for i := 0; i < n; i++ {
		b[c07HdrLen+i] = byte(int(stream)*31 + dir*17 + seq*7 + i*13 + 1)
	}
	return b
}

// c07ReadMsg reads one message; returns (msg, "", nil) | (_, "eos"/"timeout"/"closed"/other, err)
func c07ReadMsg(s *Stream, timeout time.Duration) (c07Msg, string, string) {
	s.SetReadDeadline(time.Now().Add(timeout))
	h, err := s.recvBuf.ReadBytes(c07HdrLen)
	if err != nil {
		switch err {
		case ErrEndOfStream:
			return c07Msg{}, "eos", ""
		case ErrTimeout:
			return c07Msg{}, "timeout", ""
		case ErrStreamClosed:
			return c07Msg{}, "closed", ""
		}
		return c07Msg{}, "error", err.Error()
	}
	if binary.BigEndian.Uint16(h[0:2]) != 0xC7A5 || h[15] != 0x5A {
		return c07Msg{}, "garbage", fmt.Sprintf("bad message header % x", h)
	}
	m := c07Msg{Stream: binary.BigEndian.Uint32(h[2:6]), Dir: int(h[6]), Seq: int(binary.BigEndian.Uint32(h[7:11]))}
	n := int(binary.BigEndian.Uint32(h[11:15]))
	s.recvBuf.ReleasePreviousRead()
	if n > 0 {
		s.SetReadDeadline(time.Now().Add(timeout))
		body, err := s.recvBuf.ReadBytes(n)
		if err != nil {
			return m, "garbage", "message body truncated: " + err.Error()
		}
		want := c07Payload(m.Stream, m.Dir, m.Seq, n)[c07HdrLen:]
		for i := range body {
			if body[i] != want[i] {
				return m, "garbage", fmt.Sprintf("body byte %d of message (stream %d dir %d seq %d) is wrong", i, m.Stream, m.Dir, m.Seq)
			}
		}
		s.recvBuf.ReleasePreviousRead()
	}
	return m, "", ""
}

// drain reads whatever the reader of the pipe is offered until nothing more comes.
func (p *c07Pipe) drain(timeout time.Duration) {
	p.mu.Lock()
	defer p.mu.Unlock()
	if p.r == nil || p.Garbage != "" || p.ReaderClosed {
		return
	}
	for {
		m, st, why := c07ReadMsg(p.r, timeout)
		switch st {
		case "":
			p.Got = append(p.Got, m)
			continue
		case "eos":
			if n := len(p.Got); n == 0 || !p.Got[n-1].End {
				p.Got = append(p.Got, c07Msg{Stream: p.Stream, Dir: p.Dir, End: true})
				timeout = 30 * time.Millisecond
				continue // is anything offered after the end mark?
			}
		case "garbage", "error":
			p.Garbage = why
		}
		return
	}
}

func (p *c07Pipe) write(n int) (string, error) {
	seq := p.seq
	p.seq++
	if _, err := p.w.sendBuf.WriteBytes(c07Payload(p.Stream, p.Dir, seq, n)); err != nil {
		return "", err
	}
	err := p.w.Flush(false)
	via := "shm"
	if p.w.inFallbackState {
		via = "sock"
	}
	eo := c07Op{Stream: p.Stream, Dir: p.Dir, Kind: "w", Via: via, Ok: err == nil}
	if err != nil {
		eo.Err = err.Error()
	}
	c07LogOp(eo)
	p.mu.Lock()
	if err != nil {
		p.Failed = append(p.Failed, fmt.Sprintf("seq %d: %v", seq, err))
		if err == ErrConnectionWriteTimeout || err == ErrTimeout {
			// the call gave up waiting (a busy machine); whether the message still goes out is undetermined
			p.Maybe = append(p.Maybe, seq)
		}
	} else {
		p.Flushed = append(p.Flushed, c07Msg{Stream: p.Stream, Dir: p.Dir, Seq: seq, Via: via})
	}
	p.mu.Unlock()
	return via, err
}

func (p *c07Pipe) closeW() {
	q := p.w.session.queueManager.sendQueue
	before := atomic.LoadUint64(&p.w.session.stats.queueFullErrorCount)
	tailBefore := atomic.LoadInt64(q.tail)
	wasFallback := p.w.inFallbackState
	if p.sib != nil {
		// the stream object is also the reader of the opposite direction: read what has arrived, then never
		// touch it again (reading from a stream after its own Close is outside the API contract: its buffers
		// are recycled and may already belong to another stream)
		if !c07Concurrent {
			p.sib.drain(20 * time.Millisecond)
		}
		p.sib.mu.Lock() // waits for a concurrent drain round of the reader goroutine to finish
		p.sib.ReaderClosed = true
		p.sib.mu.Unlock()
	}
	p.w.Close()
	p.Closed = true
	// which way did the close notification travel?  (observed, not assumed: no close element was put if the
	// queue's tail did not move or the put reported full)
	switch {
	case atomic.LoadUint64(&p.w.session.stats.queueFullErrorCount) != before, atomic.LoadInt64(q.tail) == tailBefore:
		p.CloseVia = "sock"
	case wasFallback && c07Concurrent:
		p.CloseVia = "unknown" // concurrent writers may have moved the tail; cannot tell
	default:
		p.CloseVia = "shm"
	}
	c07LogOp(c07Op{Stream: p.Stream, Dir: p.Dir, Kind: "c", Via: p.CloseVia, Ok: true})
}

// ---- exhaustion: hold every free slot of every size class --------------------------------------
type c07Holder struct {
	bm   *bufferManager
	held []*bufferSlice
}

func (h *c07Holder) hold() {
	for _, l := range h.bm.lists {
		for {
			b, err := l.pop()
			if err != nil {
				break
			}
			h.held = append(h.held, b)
		}
	}
}
func (h *c07Holder) release() {
	for _, b := range h.held {
		h.bm.recycleBuffer(b)
	}
	h.held = nil
}

// ---- quiescence: every event written has been handled --------------------------------------------
func c07Quiet(w, r *Session) bool {
	return r.queueManager.recvQueue.size() == 0 && atomic.LoadUint32(r.queueManager.recvQueue.workingFlag) == 0 &&
		atomic.LoadUint64(&w.stats.sendPollingEventCount) == atomic.LoadUint64(&r.stats.recvPollingEventCount) &&
		atomic.LoadUint64(&w.stats.fallbackWriteCount) == atomic.LoadUint64(&r.stats.fallbackReadCount)
}
func c07Quiesce(a, b *Session) bool {
	deadline := time.Now().Add(8 * time.Second)
	for time.Now().Before(deadline) {
		if c07Quiet(a, b) && c07Quiet(b, a) {
			time.Sleep(2 * time.Millisecond)
			if c07Quiet(a, b) && c07Quiet(b, a) {
				return true
			}
		}
		time.Sleep(200 * time.Microsecond)
	}
	return false
}
func c07WaitState(s *Stream, notOpened bool) bool {
	deadline := time.Now().Add(8 * time.Second)
	for time.Now().Before(deadline) {
		if (s.getStreamState() != uint32(streamOpened)) == notOpened {
			return true
		}
		time.Sleep(200 * time.Microsecond)
	}
	return false
}

// ---- the oracle ----------------------------------------------------------------------------------
func c07Judge(p *c07Pipe, final bool) []c07Fail {
	var out []c07Fail
	add := func(sig, what string) {
		out = append(out, c07Fail{sig, fmt.Sprintf("stream %d dir %d: %s", p.Stream, p.Dir, what)})
	}
	if p.Garbage != "" {
		add("C07:corrupt-or-foreign-bytes", p.Garbage)
		return out
	}
	via := map[int]string{}
	pos := map[int]int{}
	for i, m := range p.Flushed {
		via[m.Seq] = m.Via
		pos[m.Seq] = i
	}
	seen := map[int]bool{}
	endAt := -1
	var data []c07Msg
	for _, m := range p.Got {
		if m.End {
			if endAt < 0 {
				endAt = len(data)
			}
			continue
		}
		if m.Stream != p.Stream || m.Dir != p.Dir {
			add("C07:isolation-message-of-another-stream-or-direction", fmt.Sprintf("received a message of stream %d dir %d seq %d", m.Stream, m.Dir, m.Seq))
			continue
		}
		if _, ok := pos[m.Seq]; !ok {
			undetermined := false
			for _, q := range p.Maybe {
				undetermined = undetermined || q == m.Seq
			}
			if undetermined {
				continue
			}
			add("C07:isolation-message-never-flushed-successfully", fmt.Sprintf("received seq %d which was not flushed successfully", m.Seq))
			continue
		}
		if seen[m.Seq] {
			add("C07:duplicate-message", fmt.Sprintf("seq %d delivered twice", m.Seq))
			continue
		}
		seen[m.Seq] = true
		data = append(data, m)
	}
	// order
	for i := 1; i < len(data); i++ {
		if pos[data[i].Seq] < pos[data[i-1].Seq] {
			early, late := data[i-1].Seq, data[i].Seq
			if via[early] == "sock" && via[late] == "shm" {
				add("C07:fallback-overtakes-unpublished-wakeup", fmt.Sprintf("message seq %d (socket fallback) was delivered before seq %d (shared memory) flushed earlier", early, late))
			} else {
				add("C07:order-messages-reordered", fmt.Sprintf("seq %d (%s) delivered before seq %d (%s)", early, via[early], late, via[late]))
			}
			break
		}
	}
	if p.ReaderClosed {
		return out
	}
	// end mark
	if endAt >= 0 {
		if !p.Closed {
			add("C07:end-of-stream-without-close", "reader got ErrEndOfStream although the writer did not close")
		} else if endAt < len(p.Flushed) {
			// which flushed messages had not been offered when the end mark came?
			first := data[:endAt]
			had := map[int]bool{}
			for _, m := range first {
				had[m.Seq] = true
			}
			var missing []int
			allSock := true
			for _, m := range p.Flushed {
				if !had[m.Seq] {
					missing = append(missing, m.Seq)
					if m.Via != "sock" {
						allSock = false
					}
				}
			}
			if allSock && p.CloseVia == "shm" {
				add("C07:close-overtakes-fallback-data", fmt.Sprintf("ErrEndOfStream after %d of %d flushed messages; seq %v (socket fallback) %s", endAt, len(p.Flushed), missing,
					map[bool]string{true: "offered only after the end mark", false: "never offered"}[len(data) > endAt]))
			} else {
				add("C07:end-of-stream-before-flushed-data", fmt.Sprintf("ErrEndOfStream after %d of %d flushed messages (missing seq %v, close via %s)", endAt, len(p.Flushed), missing, p.CloseVia))
			}
		}
	}
	if final {
		if len(data) < len(p.Flushed) && len(out) == 0 {
			add("C07:flushed-message-never-delivered", fmt.Sprintf("%d of %d flushed messages were never offered to the reader", len(p.Flushed)-len(data), len(p.Flushed)))
		}
		if p.Closed && endAt < 0 && len(out) == 0 {
			add("C07:end-of-stream-never-signalled", "the writer closed but the reader never got ErrEndOfStream")
		}
	}
	return out
}

// ---- session pair ----------------------------------------------------------------------------------
type c07Listen struct{ onNew func(s *Stream) }

func (l *c07Listen) OnNewStream(s *Stream) { l.onNew(s) }
func (l *c07Listen) OnShutdown(reason string) {}

func c07Pair(queueCap uint32, cb ListenCallback) (client, server *Session) {
	c07TakeLog()
	conf := testConf()
	conf.ShareMemoryBufferCap = 1 << 20
	conf.InitializeTimeout = 30 * time.Second // the machine may be busy; nothing here depends on it
	if queueCap > 0 {
		conf.QueueCap = queueCap
	}
	clientConn, serverConn := testConn()
	ok := make(chan struct{})
	go func() {
		sc := *conf
		sc.listenCallback = cb
		var err error
		server, err = newSession(&sc, serverConn, false)
		if err != nil {
			panic(err)
		}
		close(ok)
	}()
	cc := *conf
	client, err := newSession(&cc, clientConn, true)
	if err != nil {
		panic(err)
	}
	<-ok
	return client, server
}

// open n streams on the client, send one message each so that the server creates and accepts them
func c07Open(c *c07Case, client, server *Session, n int) (pipes [][2]*c07Pipe) {
	byID := map[uint32]*Stream{}
	var cs []*Stream
	for i := 0; i < n; i++ {
		s, err := client.OpenStream()
		if err != nil {
			panic(err)
		}
		cs = append(cs, s)
	}
	for _, s := range cs {
		p := &c07Pipe{Stream: s.id, Dir: 0, w: s}
		q := &c07Pipe{Stream: s.id, Dir: 1, r: s}
		p.sib, q.sib = q, p
		pipes = append(pipes, [2]*c07Pipe{p, q})
		p.write(8)
	}
	for range cs {
		s, err := server.AcceptStream()
		if err != nil {
			panic(err)
		}
		byID[s.id] = s
	}
	for _, pq := range pipes {
		pq[0].r = byID[pq[0].Stream]
		pq[1].w = byID[pq[0].Stream]
		c.Pipes = append(c.Pipes, pq[0], pq[1])
	}
	return
}

func c07Finish(c *c07Case, client, server *Session) {
	c.Hist = c07TakeLog()
	if !c07Quiesce(client, server) {
		c.Notes = append(c.Notes, "no quiescence within 8 s at the end")
	}
	for _, p := range c.Pipes {
		p.drain(60 * time.Millisecond)
	}
	for _, p := range c.Pipes {
		c.Oracle = append(c.Oracle, c07Judge(p, true)...)
	}
	feat := map[string]bool{}
	for _, p := range c.Pipes {
		shm, sock := false, false
		for _, m := range p.Flushed {
			if m.Via == "sock" {
				sock = true
			} else {
				shm = true
			}
		}
		if shm && sock {
			feat["stream-switched-transport"] = true
		}
		if sock {
			feat["fallback"] = true
		}
		if p.CloseVia == "sock" {
			feat["close-through-socket"] = true
		}
		if p.Closed {
			feat["close"] = true
		}
		if len(p.Failed) > 0 {
			feat["flush-error"] = true
		}
	}
	for f := range feat {
		c.Feat = append(c.Feat, f)
	}
	client.Close()
	server.Close()
}

// ---- generated scenario: one operation at a time, quiescence in between ---------------------------
func c07Sequential(id int, r *vrand) c07Case {
	c := c07Case{ID: id, Kind: "sequential"}
	qcap := uint32(0)
	if r.chance(30) {
		qcap = uint32(2 + r.intn(3)) // small queue: close may have to travel through the socket
	}
	client, server := c07Pair(qcap, nil)
	n := 2 + r.intn(5)
	pipes := c07Open(&c, client, server, n)
	c07Quiesce(client, server)
	holder := &c07Holder{bm: client.bufferManager}
	exhausted := false
	dead := map[uint32]bool{}
	nops := 10 + r.intn(14)
	for k := 0; k < nops; k++ {
		i := r.intn(n)
		d := r.intn(2)
		p := pipes[i][d]
		switch x := r.intn(100); {
		case x < 55:
			if dead[p.Stream] {
				continue
			}
			size := []int{0, 1, 8, 100, 1000, 5000, 9000}[r.intn(7)]
			via, err := p.write(size)
			c.Ops = append(c.Ops, fmt.Sprintf("write(stream %d, dir %d, %d bytes) -> %s err=%v", p.Stream, d, size, via, err))
			c07Quiesce(client, server)
		case x < 70:
			if exhausted {
				holder.release()
			} else {
				holder.hold()
			}
			exhausted = !exhausted
			c.Ops = append(c.Ops, fmt.Sprintf("exhausted=%v", exhausted))
		case x < 82:
			if dead[p.Stream] {
				continue
			}
			p.closeW()
			dead[p.Stream] = true
			c.Ops = append(c.Ops, fmt.Sprintf("close(stream %d by dir %d writer) via %s", p.Stream, d, p.CloseVia))
			if !c07WaitState(p.r, true) {
				c.Oracle = append(c.Oracle, c07Fail{"C07:close-never-delivered", fmt.Sprintf("stream %d: peer stream still open 8 s after Close", p.Stream)})
			}
			c07Quiesce(client, server)
		default:
			p.drain(20 * time.Millisecond)
			c.Ops = append(c.Ops, fmt.Sprintf("read(stream %d, dir %d)", p.Stream, d))
		}
	}
	if exhausted {
		holder.release()
	}
	c07Finish(&c, client, server)
	return c
}

// ---- generated scenario: rounds of concurrent writers / closers with exhaustion between rounds ----
func c07Burst(id int, r *vrand) c07Case {
	c := c07Case{ID: id, Kind: "burst"}
	c07Concurrent = true
	defer func() { c07Concurrent = false }()
	client, server := c07Pair(0, nil)
	n := 2 + r.intn(5)
	pipes := c07Open(&c, client, server, n)
	c07Quiesce(client, server)
	holder := &c07Holder{bm: client.bufferManager}
	stopRead := make(chan struct{})
	var rg sync.WaitGroup
	for _, pq := range pipes {
		for d := 0; d < 2; d++ {
			p := pq[d]
			rg.Add(1)
			go func() {
				defer rg.Done()
				for {
					select {
					case <-stopRead:
						return
					default:
					}
					p.drain(5 * time.Millisecond)
				}
			}()
		}
	}
	rounds := 2 + r.intn(3)
	dead := map[uint32]bool{}
	for round := 0; round < rounds; round++ {
		exhaust := round > 0 && r.chance(60)
		if exhaust {
			holder.hold()
		}
		var wg sync.WaitGroup
		for i := range pipes {
			for d := 0; d < 2; d++ {
				p := pipes[i][d]
				if dead[p.Stream] || r.chance(25) {
					continue
				}
				cnt := 1 + r.intn(4)
				sizes := make([]int, cnt)
				for k := range sizes {
					sizes[k] = []int{1, 8, 100, 2000}[r.intn(4)]
				}
				closeAfter := d == 0 && round == rounds-1 && r.chance(60)
				if closeAfter {
					dead[p.Stream] = true
				}
				c.Ops = append(c.Ops, fmt.Sprintf("round %d exhausted=%v: stream %d dir %d writes %v close=%v", round, exhaust, p.Stream, d, sizes, closeAfter))
				wg.Add(1)
				go func() {
					defer wg.Done()
					for _, sz := range sizes {
						p.write(sz)
					}
					if closeAfter {
						p.closeW()
					}
				}()
			}
		}
		wg.Wait()
		if exhaust {
			holder.release()
		}
	}
	c07Quiesce(client, server)
	time.Sleep(20 * time.Millisecond)
	close(stopRead)
	rg.Wait()
	c07Finish(&c, client, server)
	return c
}

// ---- (a) close overtakes fallback data: deterministic through the public callback API --------------
func c07RaceA(id int) c07Case {
	c := c07Case{ID: id, Kind: "directed-a-close-overtakes-fallback-data"}
	gate := []chan struct{}{make(chan struct{}), make(chan struct{})}
	entered := make(chan *Stream, 4)
	var nNew int32
	cb := &c07Listen{onNew: func(s *Stream) {
		k := int(atomic.AddInt32(&nNew, 1)) - 1
		entered <- s
		if k < len(gate) {
			<-gate[k] // holds the server's event loop inside handlePolling
		}
	}}
	client, server := c07Pair(0, cb)
	s1, _ := client.OpenStream()
	s2, _ := client.OpenStream()
	p1 := &c07Pipe{Stream: s1.id, Dir: 0, w: s1}
	p2 := &c07Pipe{Stream: s2.id, Dir: 0, w: s2}
	c.Pipes = []*c07Pipe{p1, p2}
	holder := &c07Holder{bm: client.bufferManager}
	step := func(s string) { c.Ops = append(c.Ops, s) }

	via, err := p1.write(32)
	step(fmt.Sprintf("client: stream %d write m0 -> %s err=%v", s1.id, via, err))
	select {
	case p1.r = <-entered:
		step("server: OnNewStream(stream 1) entered and blocks: the event loop is inside handlePolling")
	case <-time.After(8 * time.Second):
		c.Notes = append(c.Notes, "OnNewStream was not called within 8 s")
		close(gate[0])
		close(gate[1])
		c07Finish(&c, client, server)
		return c
	}
	holder.hold()
	via, err = p1.write(32)
	step(fmt.Sprintf("client: shared memory exhausted; stream %d write m1 -> %s err=%v", s1.id, via, err))
	holder.release()
	p1.closeW()
	step(fmt.Sprintf("client: stream %d Close -> close element via %s", s1.id, p1.CloseVia))
	via, err = p2.write(8)
	step(fmt.Sprintf("client: stream %d write x0 -> %s err=%v", s2.id, via, err))
	close(gate[0])
	select {
	case p2.r = <-entered:
		step("server: released; handlePolling delivered m0 and the close element of stream 1, OnNewStream(stream 2) blocks the loop again")
	case <-time.After(8 * time.Second):
		c.Notes = append(c.Notes, "second OnNewStream was not called within 8 s")
	}
	p1.drain(300 * time.Millisecond) // the fallback event is still unread on the socket
	step(fmt.Sprintf("server: reader of stream 1 was offered %d item(s) so far", len(p1.Got)))
	close(gate[1])
	c07Finish(&c, client, server)
	return c
}

// ---- (f) shared memory recovers after a fallback: the stream must stay on the socket ----------------------
// The server's event loop is held inside handlePolling (blocking OnNewStream).  Stream 1: m0 (shm), shm
// exhausted: m1 (socket fallback, unread), shm available again: m2, m3 small messages (and optionally Close).
// Stream.inFallbackState is sticky, so m2, m3 follow m1 on the socket.  If the stream went back to the queue,
// handlePolling / the drain in front of the fallback event would deliver them before m1.
func c07Recover(id int, withClose bool) c07Case {
	c := c07Case{ID: id, Kind: "directed-f-shm-recovers-after-fallback"}
	gate := make(chan struct{})
	entered := make(chan *Stream, 4)
	var nNew int32
	cb := &c07Listen{onNew: func(s *Stream) {
		k := atomic.AddInt32(&nNew, 1)
		entered <- s
		if k == 1 {
			<-gate
		}
	}}
	client, server := c07Pair(0, cb)
	s1, _ := client.OpenStream()
	p1 := &c07Pipe{Stream: s1.id, Dir: 0, w: s1}
	c.Pipes = []*c07Pipe{p1}
	holder := &c07Holder{bm: client.bufferManager}
	step := func(s string) { c.Ops = append(c.Ops, s) }
	via, err := p1.write(32)
	step(fmt.Sprintf("client: stream %d write m0 -> %s err=%v", s1.id, via, err))
	select {
	case p1.r = <-entered:
		step("server: OnNewStream blocks: the event loop is inside handlePolling")
	case <-time.After(8 * time.Second):
		c.Notes = append(c.Notes, "OnNewStream was not called within 8 s")
		close(gate)
		c07Finish(&c, client, server)
		return c
	}
	holder.hold()
	via, err = p1.write(32)
	step(fmt.Sprintf("client: shared memory exhausted; write m1 -> %s err=%v", via, err))
	holder.release()
	via, err = p1.write(8)
	step(fmt.Sprintf("client: shared memory available again; write m2 -> %s err=%v", via, err))
	via, err = p1.write(64)
	step(fmt.Sprintf("client: write m3 -> %s err=%v", via, err))
	if withClose {
		p1.closeW()
		step(fmt.Sprintf("client: Close -> notification via %s", p1.CloseVia))
	}
	close(gate)
	c07Finish(&c, client, server)
	return c
}


// ---- the synchronous reader (Stream.readMore) under control -----------------------------------------------
// props/C07.py hands `go test` a copy of the CURRENT stream.go in which, inside readMore only,
//     select { case <-s.recvNotifyCh: | case <-s.closeNotifyCh: | case <-timeoutCh: }
// is rewritten into  switch c07ReadSelect(s, timeoutCh) { case 0: | case 1: | case 2: }  and the entry test
// `!s.IsOpen()` into `!c07ReadEntryIsOpen(s)` (a rewrite like the instrumenter's mutex rewrites: the bodies of the
// branches are the source's).  Without a hook both behave exactly like the original.  With a hook the harness
// decides WHICH ready case the select takes (Go may take any) and what the dispatcher does while the reader
// is between two of its statements.
var c07Rd struct {
	sync.RWMutex
	sel   func(s *Stream, timeoutCh <-chan time.Time) int // -1: not mine, do the real select
	entry func(s *Stream)
}

func c07SetReadHooks(sel func(*Stream, <-chan time.Time) int, entry func(*Stream)) {
	c07Rd.Lock()
	c07Rd.sel, c07Rd.entry = sel, entry
	c07Rd.Unlock()
}

func c07ReadSelect(s *Stream, timeoutCh <-chan time.Time) int {
	c07Rd.RLock()
	h := c07Rd.sel
	c07Rd.RUnlock()
	if h != nil {
		if r := h(s, timeoutCh); r >= 0 {
			return r
		}
	}
	select {
	case <-s.recvNotifyCh:
		return 0
	case <-s.closeNotifyCh:
		return 1
	case <-timeoutCh:
		return 2
	}
}

func c07ReadEntryIsOpen(s *Stream) bool {
	c07Rd.RLock()
	h := c07Rd.entry
	c07Rd.RUnlock()
	if h != nil {
		h(s)
	}
	return s.IsOpen()
}

func c07ChanClosed(ch chan struct{}) bool {
	select {
	case <-ch:
		return true
	default:
		return false
	}
}

// the select of a slow reader: it waits until a case is ready, lets the other notification arrive as well, and then
// takes the closeNotifyCh case if it is ready (preferClose) or the data case
func c07SlowSelect(targets map[*Stream]bool, preferClose bool, mu *sync.Mutex) func(*Stream, <-chan time.Time) int {
	return func(s *Stream, timeoutCh <-chan time.Time) int {
		mu.Lock()
		mine := targets[s]
		mu.Unlock()
		if !mine {
			return -1
		}
		waited := false
		for {
			closed := c07ChanClosed(s.closeNotifyCh)
			if closed || len(s.recvNotifyCh) > 0 {
				if !waited {
					time.Sleep(400 * time.Microsecond)
					waited = true
					continue
				}
				if closed && (preferClose || len(s.recvNotifyCh) == 0) {
					return 1
				}
				select {
				case <-s.recvNotifyCh:
					return 0
				default:
				}
				continue
			}
			select {
			case <-timeoutCh:
				return 2
			default:
			}
			time.Sleep(20 * time.Microsecond)
		}
	}
}

func c07FallbackSlice(payload []byte) bufferSliceWrapper {
	data := append([]byte(nil), payload...)
	sl := newBufferSlice(nil, data, 0, false)
	sl.writeIndex = len(data)
	return bufferSliceWrapper{fallbackSlice: sl}
}

func c07DriverJudge(c *c07Case, p *c07Pipe, sig, what string) {
	// first thing the reader was told
	first := "nothing"
	if len(p.Got) > 0 {
		first = "ok"
		if p.Got[0].End {
			first = "eos"
		}
	}
	if c.Reader != nil {
		c.Reader.First = first
	}
	fails := c07Judge(p, true)
	for _, f := range fails {
		if sig != "" && (f.Sig == "C07:end-of-stream-before-flushed-data" || f.Sig == "C07:close-overtakes-fallback-data") {
			f = c07Fail{sig, fmt.Sprintf("stream %d: %s", p.Stream, what)}
		}
		c.Oracle = append(c.Oracle, f)
	}
}

// (h) driver at the stream level: the last message and the peer's close are both delivered (exactly the calls the
// dispatcher makes: handleStreamMessage, halfClose) while the reader is between its moveTo and its select; both
// channels are ready and the select takes the closeNotifyCh case (or the data case).
func c07ReaderWait(id int, preferClose bool) c07Case {
	c := c07Case{ID: id, Kind: "directed-h-reader-woken-by-close-with-data-pending"}
	client, server := c07Pair(0, nil)
	defer client.Close()
	defer server.Close()
	st := newStream(server, uint32(900000+id))
	p := &c07Pipe{Stream: st.id, Dir: 0, r: st, Closed: true, CloseVia: "sock"}
	p.Flushed = []c07Msg{{Stream: st.id, Dir: 0, Seq: 0, Via: "sock"}}
	c.Pipes = []*c07Pipe{p}
	msg := c07Payload(st.id, 0, 0, 0) // header only: ONE blocking read of 16 bytes
	injected := false
	pick := "BRecv"
	if preferClose {
		pick = "BClose"
	}
	c07SetReadHooks(func(s *Stream, tmo <-chan time.Time) int {
		if s != st {
			return -1
		}
		if !injected {
			injected = true
			server.handleStreamMessage(st, c07FallbackSlice(msg), streamOpened)
			st.halfClose()
		}
		if preferClose && c07ChanClosed(st.closeNotifyCh) {
			return 1
		}
		select {
		case <-st.recvNotifyCh:
			return 0
		default:
		}
		if c07ChanClosed(st.closeNotifyCh) {
			return 1
		}
		return -1
	}, nil)
	defer c07SetReadHooks(nil, nil)
	c.Reader = &c07Reader{Min: c07HdrLen, Acts: []string{"AStep", "AStep", "AStep", fmt.Sprintf("AData %d", c07HdrLen), "ACloseState", "ACloseChan", "APick " + pick, "AStep", "AStep"}}
	c.Ops = append(c.Ops, fmt.Sprintf("reader of stream %d enters a blocking read on an empty stream; between its moveTo and its select the dispatcher delivers the last message and the peer's close; the select takes %s", st.id, pick))
	p.drain(300 * time.Millisecond)
	c07DriverJudge(&c, p, "", "")
	if !injected {
		c.Notes = append(c.Notes, "the select hook was never called: stream.go's readMore was not rewritten")
	}
	c.Feat = append(c.Feat, "close")
	return c
}

// (j) the same two deliveries, but between readMore's moveTo / length read at its ENTRY and its IsOpen() test
func c07ReaderEntry(id int) c07Case {
	c := c07Case{ID: id, Kind: "directed-j-reader-entry-test-with-data-pending"}
	client, server := c07Pair(0, nil)
	defer client.Close()
	defer server.Close()
	st := newStream(server, uint32(900000+id))
	p := &c07Pipe{Stream: st.id, Dir: 0, r: st, Closed: true, CloseVia: "sock"}
	p.Flushed = []c07Msg{{Stream: st.id, Dir: 0, Seq: 0, Via: "sock"}}
	c.Pipes = []*c07Pipe{p}
	msg := c07Payload(st.id, 0, 0, 0)
	injected := false
	c07SetReadHooks(nil, func(s *Stream) {
		if s == st && !injected {
			injected = true
			server.handleStreamMessage(st, c07FallbackSlice(msg), streamOpened)
			st.halfClose()
		}
	})
	defer c07SetReadHooks(nil, nil)
	c.Reader = &c07Reader{Min: c07HdrLen, Acts: []string{"AStep", "AStep", fmt.Sprintf("AData %d", c07HdrLen), "ACloseState", "ACloseChan", "AStep", "AStep", "AStep"}}
	c.Ops = append(c.Ops, fmt.Sprintf("reader of stream %d enters a blocking read on an empty stream; after its moveTo and length read, before its IsOpen() test, the dispatcher delivers the last message and the peer's close", st.id))
	p.drain(300 * time.Millisecond)
	c07DriverJudge(&c, p, "C07:end-of-stream-at-read-entry-with-data-pending",
		"readMore's entry test `recvLen == 0 && !IsOpen()` returned ErrEndOfStream although the last message (delivered before the close) is in pendingData; it is offered only by the next read")
	if !injected {
		c.Notes = append(c.Notes, "the entry hook was never called: stream.go's readMore was not rewritten")
	}
	c.Feat = append(c.Feat, "close")
	return c
}

// (i) real pair: the peer flushes its last message and closes at once while a slow reader is parked in readMore
func c07FlushThenClose(id int, reps int) c07Case {
	c := c07Case{ID: id, Kind: "directed-i-flush-then-close-at-once"}
	client, server := c07Pair(0, nil)
	var mu sync.Mutex
	targets := map[*Stream]bool{}
	c07SetReadHooks(c07SlowSelect(targets, true, &mu), nil)
	defer c07SetReadHooks(nil, nil)
	pipes := c07Open(&c, client, server, reps)
	c07Quiesce(client, server)
	var wg sync.WaitGroup
	for _, pq := range pipes {
		p := pq[0]
		p.drain(20 * time.Millisecond) // the opening message; the reader is idle now
		mu.Lock()
		targets[p.r] = true
		mu.Unlock()
		wg.Add(1)
		go func() { // the slow reader: parked in readMore when the last message and the close arrive
			defer wg.Done()
			p.drain(1500 * time.Millisecond)
		}()
	}
	time.Sleep(5 * time.Millisecond)
	for _, pq := range pipes {
		p := pq[0]
		p.write(24)
		p.closeW()
	}
	c.Ops = append(c.Ops, fmt.Sprintf("%d streams: reader parked in a blocking read; the peer flushes its last message and Closes at once; the reader's select takes the closeNotifyCh case when both are ready", reps))
	wg.Wait()
	c07Finish(&c, client, server)
	return c
}

// ---- (d) a stream that lives entirely on the socket: fallback from its first message, closed through the
// socket because the queue is full (the hypothesis of the partial theorem; expected in order) -----------
func c07SocketOnly(id int) c07Case {
	c := c07Case{ID: id, Kind: "directed-d-socket-only-stream"}
	gate := make(chan struct{})
	entered := make(chan *Stream, 8)
	var nNew int32
	cb := &c07Listen{onNew: func(s *Stream) {
		k := atomic.AddInt32(&nNew, 1)
		entered <- s
		if k == 1 {
			<-gate
		}
	}}
	client, server := c07Pair(2, cb)
	sx, _ := client.OpenStream()
	sy, _ := client.OpenStream()
	sz, _ := client.OpenStream()
	px := &c07Pipe{Stream: sx.id, Dir: 0, w: sx}
	py := &c07Pipe{Stream: sy.id, Dir: 0, w: sy}
	pz := &c07Pipe{Stream: sz.id, Dir: 0, w: sz}
	c.Pipes = []*c07Pipe{px, py, pz}
	holder := &c07Holder{bm: client.bufferManager}
	px.write(8)
	select {
	case px.r = <-entered:
	case <-time.After(8 * time.Second):
		c.Notes = append(c.Notes, "OnNewStream was not called within 8 s")
		close(gate)
		c07Finish(&c, client, server)
		return c
	}
	holder.hold()
	v1, _ := py.write(40)
	v2, _ := py.write(3000)
	holder.release()
	pz.write(8)
	pz.write(8) // the queue (capacity 2) is full now: the server's event loop is blocked
	py.closeW()
	c.Ops = append(c.Ops, fmt.Sprintf("stream %d: two messages via %s,%s; queue filled by stream %d; Close travelled via %s", sy.id, v1, v2, sz.id, py.CloseVia))
	close(gate)
	bind := map[uint32]*c07Pipe{sy.id: py, sz.id: pz}
	for k := 0; k < 2; k++ {
		select {
		case s := <-entered:
			if p := bind[s.id]; p != nil {
				p.r = s
			}
		case <-time.After(8 * time.Second):
			c.Notes = append(c.Notes, "a stream was not announced within 8 s")
		}
	}
	c07Finish(&c, client, server)
	return c
}

// ---- (b) fallback event overtakes a published-but-unwritten wake-up --------------------------------
// The REAL wakeUpPeer of stream A's Flush is paused right after its successful markWorking (instrumented
// session.go / queue.go under the controlled scheduler); everything else runs free.
func c07RaceB(id int) c07Case {
	return c07Window(id, "directed-b-fallback-overtakes-unpublished-wakeup", false, 0)
}

// (g) the same window, but stream B's first data element is still in the (now full) queue when B closes: the
// close notification travels through the socket (put fails) and reaches the peer before it has ever heard
// of stream B.  The handler must empty the queue first (creating B, delivering b0) and only then look B up.
func c07CloseEventFirst(id int) c07Case {
	return c07Window(id, "directed-g-close-event-before-first-queued-data", true, 2)
}

func c07Window(id int, kind string, closeInstead bool, queueCap uint32) c07Case {
	c := c07Case{ID: id, Kind: kind}
	client, server := c07Pair(queueCap, nil)
	sa, _ := client.OpenStream()
	sb, _ := client.OpenStream()
	pa := &c07Pipe{Stream: sa.id, Dir: 0, w: sa}
	pb := &c07Pipe{Stream: sb.id, Dir: 0, w: sb}
	c.Pipes = []*c07Pipe{pa, pb}
	holder := &c07Holder{bm: client.bufferManager}
	step := func(s string) { c.Ops = append(c.Ops, s) }

	vsReset()
	flagReg := vsAddRegion(unsafe.Pointer(client.queueManager.sendQueue.workingFlag), 4)
	vs.active = true
	t1 := vsSpawn(func() { pa.write(16) })
	won := false
	for k := 0; k < 200 && !t1.done; k++ {
		n := len(vs.log)
		vsStep(t1)
		if len(vs.log) > n {
			ev := vs.log[len(vs.log)-1]
			if ev.Kind == vsKCAS && ev.Reg == flagReg && ev.C == 1 {
				won = true
				break
			}
		}
	}
	// T1 is parked in front of its next shared access (CAS writing); from here on every wrapper is a pass-through
	vs.active = false
	vs.cur = nil
	if !won || t1.done {
		c.Notes = append(c.Notes, "could not park the writer of stream A after markWorking")
		if !t1.done {
			vsStep(t1)
		}
		c07Finish(&c, client, server)
		return c
	}
	step(fmt.Sprintf("T1: stream %d Flush(a0): element published, markWorking succeeded, PAUSED before the polling event is written", sa.id))
	via, err := pb.write(16)
	step(fmt.Sprintf("T2: stream %d Flush(b0) -> %s err=%v (markWorking fails: no event)", sb.id, via, err))
	wait := 8 * time.Second
	if closeInstead {
		pb.closeW()
		step(fmt.Sprintf("T2: the queue (capacity %d) is full; stream %d Close -> notification via %s", queueCap, sb.id, pb.CloseVia))
		wait = 2 * time.Second
	} else {
		holder.hold()
		via, err = pb.write(16)
		holder.release()
		step(fmt.Sprintf("T2: shared memory exhausted; stream %d Flush(b1) -> %s err=%v", sb.id, via, err))
	}
	// the socket item makes the peer empty the queue: streams A and B appear on the server
	acc := make(chan *Stream, 2)
	go func() {
		for i := 0; i < 2; i++ {
			s, err := server.AcceptStream()
			if err != nil {
				return
			}
			acc <- s
		}
	}()
	bind := func(s *Stream) {
		if s.id == sa.id {
			pa.r = s
		} else {
			pb.r = s
		}
	}
	select {
	case s := <-acc:
		bind(s)
	case <-time.After(wait):
		c.Notes = append(c.Notes, "server accepted no stream while T1 was paused")
	}
	if pb.r != nil {
		pb.drain(300 * time.Millisecond)
		step(fmt.Sprintf("server: reader of stream %d was offered %d message(s) while T1 is still paused", sb.id, len(pb.Got)))
	}
	vsStep(t1) // T1 resumes (uncontrolled) and writes the polling event
	step("T1: resumed: polling event written")
	for pa.r == nil || pb.r == nil {
		select {
		case s := <-acc:
			bind(s)
			continue
		case <-time.After(8 * time.Second):
			c.Notes = append(c.Notes, "a stream was not accepted within 8 s")
		}
		break
	}
	c07Finish(&c, client, server)
	return c
}

// ---- (c) callback mode: write; Flush; Close by the peer --------------------------------------------
type c07CB struct {
	mu          sync.Mutex
	data        []c07Msg
	remoteClose int
	order       []string
	garbage     string
}

func (cb *c07CB) OnData(reader BufferReader) {
	cb.mu.Lock()
	defer cb.mu.Unlock()
	for reader.Len() >= c07HdrLen {
		h, err := reader.ReadBytes(c07HdrLen)
		if err != nil || binary.BigEndian.Uint16(h[0:2]) != 0xC7A5 {
			cb.garbage = "bad header in OnData"
			return
		}
		m := c07Msg{Stream: binary.BigEndian.Uint32(h[2:6]), Dir: int(h[6]), Seq: int(binary.BigEndian.Uint32(h[7:11]))}
		n := int(binary.BigEndian.Uint32(h[11:15]))
		if n > 0 {
			if _, err := reader.ReadBytes(n); err != nil {
				cb.garbage = "short body in OnData"
				return
			}
		}
		reader.ReleasePreviousRead()
		cb.data = append(cb.data, m)
		cb.order = append(cb.order, fmt.Sprintf("OnData(seq %d)", m.Seq))
	}
}
func (cb *c07CB) OnLocalClose() {}
func (cb *c07CB) OnRemoteClose() {
	cb.mu.Lock()
	cb.remoteClose++
	cb.order = append(cb.order, "OnRemoteClose")
	cb.mu.Unlock()
}

func c07RaceC(id int) c07Case {
	c := c07Case{ID: id, Kind: "directed-c-callback-mode-flush-then-close"}
	cbs := map[uint32]*c07CB{}
	var mu sync.Mutex
	lcb := &c07Listen{onNew: func(s *Stream) {
		cb := &c07CB{}
		mu.Lock()
		cbs[s.id] = cb
		mu.Unlock()
		s.SetCallbacks(cb)
	}}
	client, server := c07Pair(0, lcb)
	s, _ := client.OpenStream()
	p := &c07Pipe{Stream: s.id, Dir: 0, w: s}
	c.Pipes = []*c07Pipe{p}
	p.write(16) // creates the stream on the server; callbacks are set in OnNewStream; m0 is offered to OnData
	c07Quiesce(client, server)
	time.Sleep(50 * time.Millisecond)
	via, err := p.write(16)
	p.closeW()
	c.Ops = append(c.Ops, fmt.Sprintf("client: stream %d write m1 -> %s err=%v; Close immediately (via %s)", s.id, via, err, p.CloseVia))
	c07Quiesce(client, server)
	deadline := time.Now().Add(3 * time.Second)
	var cb *c07CB
	for time.Now().Before(deadline) {
		mu.Lock()
		cb = cbs[s.id]
		mu.Unlock()
		if cb != nil {
			cb.mu.Lock()
			done := cb.remoteClose > 0 && len(cb.data) >= len(p.Flushed)
			cb.mu.Unlock()
			if done {
				break
			}
		}
		time.Sleep(2 * time.Millisecond)
	}
	if cb == nil {
		c.Notes = append(c.Notes, "OnNewStream never called")
	} else {
		cb.mu.Lock()
		p.Got = append(p.Got, cb.data...)
		c.Ops = append(c.Ops, fmt.Sprintf("server callbacks in order: %v", cb.order))
		if cb.garbage != "" {
			p.Garbage = cb.garbage
		}
		if cb.remoteClose > 0 && len(cb.data) < len(p.Flushed) && len(p.Failed) == 0 {
			c.Oracle = append(c.Oracle, c07Fail{"C07:callback-mode-data-before-peer-close-never-offered",
				fmt.Sprintf("stream %d: the peer flushed %d messages successfully and closed; OnRemoteClose was delivered but only %d message(s) were ever offered to OnData (3 s later)", s.id, len(p.Flushed), len(cb.data))})
		}
		if cb.remoteClose > 0 {
			// order of callbacks: data offered after OnRemoteClose also puts the end mark too early
			seenClose := false
			for _, o := range cb.order {
				if o == "OnRemoteClose" {
					seenClose = true
				} else if seenClose {
					c.Oracle = append(c.Oracle, c07Fail{"C07:callback-mode-data-offered-after-remote-close", fmt.Sprintf("stream %d: %v", s.id, cb.order)})
					break
				}
			}
		}
		cb.mu.Unlock()
	}
	client.Close()
	server.Close()
	return c
}

func TestVerif_C07(t *testing.T) {
	seed := uint64(venvInt("VERIF_SEED", 1))
	n := venvInt("VERIF_N", 24)
	o := vopenOut(t)
	defer o.close()
	old := debugMode
	debugMode = true // keeps the 30 s circuit breaker after a fallback from refusing OpenStream in later scenarios
	defer func() { debugMode = old }()
	r := newVrand(seed)
	id := 0
	o.emit(c07RaceA(id))
	id++
	o.emit(c07RaceB(id))
	id++
	for k := 0; k < 3; k++ {
		o.emit(c07RaceC(id))
		id++
	}
	o.emit(c07SocketOnly(id))
	id++
	o.emit(c07Recover(id, false))
	id++
	o.emit(c07Recover(id, true))
	id++
	o.emit(c07CloseEventFirst(id))
	id++
	if os.Getenv("VERIF_C07_NOCTL") == "" { // these need readMore's select under control (overlay rewrite of stream.go)
		o.emit(c07ReaderWait(id, true))
		id++
		o.emit(c07ReaderWait(id, false))
		id++
		o.emit(c07ReaderEntry(id))
		id++
	}
	o.emit(c07FlushThenClose(id, 6))
	id++
	for k := 0; k < n; k++ {
		if k%3 == 2 {
			o.emit(c07Burst(id, r))
		} else {
			o.emit(c07Sequential(id, r))
		}
		id++
	}
	t.Logf("emitted %d cases", id)
}
