//go:build verif

package shmipc

// C17 correspondence (mechanism T) + property oracle: the REAL SessionManager with its rebuild
// watchers against real Listeners over unix sockets; Config.rebuildInterval shortened in-package.
// Logged per scenario: sessions lost (client end observed closed), sessions rebuilt into a pool
// object (identity of the *streamPool), the manager's hot-restart handler calls (wrapped through
// sessionManagerHandlers, the real handler runs), checker done / time-out inferred from snapshots
// taken under the manager's lock, Close begin / end, GetStream probes with their duration.
// props/C17.py runs Model/Rebuild.v as an acceptor over that history.  Independent oracle: a lost pool
// is closed (ring drained), GetStream in the gap returns an error promptly, the pool is rebuilt once
// the server is reachable and GetStream works again (echo), a pool swapped by a hot restart is not
// rebuilt a second time (sessions accepted by the new server are counted), nothing is created after
// SessionManager.Close, Close returns promptly, the goroutine census comes back to its baseline.

import (
	"fmt"
	"go/ast"
	"go/parser"
	"go/token"
	"net"
	"os"
	"runtime"
	"sync"
	"sync/atomic"
	"syscall"
	"testing"
	"time"
)

type v17Obs struct {
	State   int64      `json:"st"`
	Epoch   int64      `json:"ep"`
	Pools   []int      `json:"pools"`
	Objs    [][2]int64 `json:"objs"`
	Reserve []*int     `json:"reserve"`
	sess    []*Session // per object
}

type v17Ev struct {
	K   string  `json:"k"` // lost | rebuilt | hr | tick | timeout | closebegin | closeend | gs
	I   int     `json:"i"`
	O   int     `json:"o"`
	E   int64   `json:"e"`
	Ok  bool    `json:"ok"`
	Obs *v17Obs `json:"obs"`
	T   int64   `json:"t"`
	Us  int64   `json:"us,omitempty"`
}

type v17Case struct {
	ID        string            `json:"id"`
	N         int               `json:"n"`
	Hist      []v17Ev           `json:"hist"`
	Oracle    []string          `json:"oracle"`
	Ambiguous bool              `json:"ambiguous"`
	Feat      []string          `json:"feat"`
	Stats     map[string]int64  `json:"stats"`
	Notes     map[string]string `json:"notes"`
	SkipModel bool              `json:"skip_model"`
}

type v17Scn struct {
	name     string
	n        int
	path     string
	prefix   string
	t0       time.Time
	interval time.Duration

	mu        sync.Mutex
	hist      []v17Ev
	last      *v17Obs
	ambiguous bool
	oracle    []string
	feat      map[string]bool
	stats     map[string]int64
	notes     map[string]string

	lis     *Listener // the server currently listening on the path
	oldLis  *Listener // after a hot restart: the one that asked for it
	sm      *SessionManager
	objs    []*streamPool
	objID   map[*streamPool]int
	objSlot []int

	srvSeen map[*Listener]map[*Session]bool // server sessions ever seen per listener

	stopSampler chan struct{}
	samplerDone chan struct{}
	closing     int32
}

var v17reg struct {
	sync.RWMutex
	byMgr map[*SessionManager]*v17Scn
}
var v17patchOnce sync.Once

func v17patch() {
	v17patchOnce.Do(func() {
		v17reg.byMgr = map[*SessionManager]*v17Scn{}
		orig := sessionManagerHandlers[typeHotRestart]
		sessionManagerHandlers[typeHotRestart] = func(sm *SessionManager, params interface{}) {
			v17reg.RLock()
			sc := v17reg.byMgr[sm]
			v17reg.RUnlock()
			hp, ok := params.(*sessionManagerHotRestartParams)
			if sc == nil || !ok || hp.session == nil {
				orig(sm, params)
				return
			}
			sc.onRestartEvent(orig, sm, hp)
		}
	})
}

func (sc *v17Scn) setStat(k string, v int64) {
	sc.mu.Lock()
	sc.stats[k] = v
	sc.mu.Unlock()
}
func (sc *v17Scn) setNote(k, v string) {
	sc.mu.Lock()
	sc.notes[k] = v
	sc.mu.Unlock()
}

func (sc *v17Scn) ms() int64 { return int64(time.Since(sc.t0) / time.Millisecond) }
func (sc *v17Scn) fail(sig, what string) {
	sc.mu.Lock()
	sc.oracle = append(sc.oracle, sig+" | "+what)
	sc.mu.Unlock()
}
func (sc *v17Scn) failLocked(sig, what string) { sc.oracle = append(sc.oracle, sig+" | "+what) }

func v17b(b bool) int64 {
	if b {
		return 1
	}
	return 0
}

// caller holds sc.mu
func (sc *v17Scn) snapshot() *v17Obs {
	o := &v17Obs{}
	sm := sc.sm
	sm.RLock()
	o.State, o.Epoch = int64(sm.state), int64(sm.epoch)
	o.Pools = make([]int, len(sm.pools))
	for i, p := range sm.pools {
		id, ok := sc.objID[p]
		if !ok {
			id = len(sc.objs)
			sc.objs = append(sc.objs, p)
			sc.objSlot = append(sc.objSlot, i)
			sc.objID[p] = id
		}
		o.Pools[i] = id
	}
	o.Reserve = make([]*int, len(sm.pools))
	for k, p := range sm.reservePools {
		if k >= 0 && k < len(sm.pools) && p != nil {
			if id, ok := sc.objID[p]; ok {
				id := id
				o.Reserve[k] = &id
			} else {
				sc.ambiguous = true
			}
		}
	}
	sm.RUnlock()
	o.Objs = make([][2]int64, len(sc.objs))
	o.sess = make([]*Session, len(sc.objs))
	for id, p := range sc.objs {
		s := p.Session()
		o.sess[id] = s
		o.Objs[id] = [2]int64{int64(s.epochID), v17b(!s.IsClosed())}
	}
	return o
}

func (o *v17Obs) referenced(id int) bool {
	for _, x := range o.Pools {
		if x == id {
			return true
		}
	}
	for _, r := range o.Reserve {
		if r != nil && *r == id {
			return true
		}
	}
	return false
}

func (sc *v17Scn) infer(p, q *v17Obs) []v17Ev {
	var evs []v17Ev
	// manager transitions first: they explain the closing of parked pools
	if p.State == int64(hotRestartState) && q.State != int64(hotRestartState) {
		cnt := 0
		for _, r := range q.Reserve {
			if r != nil {
				cnt++
			}
		}
		if cnt == len(q.Pools) {
			evs = append(evs, v17Ev{K: "tick", T: sc.ms()})
		} else {
			evs = append(evs, v17Ev{K: "timeout", T: sc.ms()})
		}
	}
	for id := range p.Objs {
		if p.sess[id] == q.sess[id] && p.Objs[id][1] == 1 && q.Objs[id][1] == 0 && q.referenced(id) && atomic.LoadInt32(&sc.closing) == 0 {
			evs = append(evs, v17Ev{K: "lost", O: id, T: sc.ms()})
		}
	}
	for id := range p.Objs {
		if p.sess[id] != q.sess[id] {
			evs = append(evs, v17Ev{K: "rebuilt", I: sc.objSlot[id], O: id, E: q.Objs[id][0], T: sc.ms()})
			sc.stats["rebuilt"]++
			if !q.referencedByPools(id) {
				sc.stats["rebuilt_into_unreferenced_pool"]++
			}
		}
	}
	return evs
}

func (o *v17Obs) referencedByPools(id int) bool {
	for _, x := range o.Pools {
		if x == id {
			return true
		}
	}
	return false
}

// caller holds sc.mu
func (sc *v17Scn) observe(explicit ...v17Ev) *v17Obs {
	q := sc.snapshot()
	var evs []v17Ev
	if sc.last != nil {
		evs = sc.infer(sc.last, q)
	}
	if len(explicit) > 0 && len(evs) > 0 {
		sc.ambiguous = true
	}
	evs = append(explicit, evs...)
	if len(evs) > 0 {
		evs[len(evs)-1].Obs = q
		sc.hist = append(sc.hist, evs...)
	}
	sc.last = q
	sc.census()
	return q
}

// server sessions ever seen in the listeners' tables
func (sc *v17Scn) census() {
	for _, l := range []*Listener{sc.lis, sc.oldLis} {
		if l == nil {
			continue
		}
		m := sc.srvSeen[l]
		if m == nil {
			m = map[*Session]bool{}
			sc.srvSeen[l] = m
		}
		l.sessions.sessionMu.Lock()
		for s := range l.sessions.data {
			m[s] = true
		}
		l.sessions.sessionMu.Unlock()
	}
}

func (sc *v17Scn) accepted(l *Listener) int {
	sc.mu.Lock()
	defer sc.mu.Unlock()
	sc.census()
	return len(sc.srvSeen[l])
}

func (sc *v17Scn) onRestartEvent(orig sessionManagerHandler, sm *SessionManager, hp *sessionManagerHotRestartParams) {
	sc.mu.Lock()
	defer sc.mu.Unlock()
	p := sc.observe()
	i := hp.session.sessionID
	orig(sm, hp)
	sm.RLock()
	var cur *streamPool
	if i >= 0 && i < len(sm.pools) {
		cur = sm.pools[i]
	}
	sm.RUnlock()
	ok := i >= 0 && i < len(p.Pools) && cur != sc.objs[p.Pools[i]]
	sc.observe(v17Ev{K: "hr", I: i, E: int64(hp.epoch), Ok: ok, T: sc.ms()})
}

// ------------------------------------------------------------------------------------------ echo server

type v17Listen struct{}

func (v17Listen) OnNewStream(s *Stream) { _ = s.SetCallbacks(&v17Echo{s}) }
func (v17Listen) OnShutdown(string)     {}

type v17Echo struct{ s *Stream }

func (e *v17Echo) OnData(r BufferReader) {
	n := r.Len()
	if n <= 0 {
		return
	}
	b, err := r.ReadBytes(n)
	if err != nil {
		return
	}
	_, _ = e.s.BufferWriter().WriteBytes(b)
	_ = e.s.Flush(false)
	e.s.ReleaseReadAndReuse()
}
func (e *v17Echo) OnLocalClose()  {}
func (e *v17Echo) OnRemoteClose() {}

func v17NewListener(path string) (*Listener, error) {
	cfg := NewDefaultListenerConfig(path, "unix")
	cfg.InitializeTimeout = 5 * time.Second
	l, err := NewListener(v17Listen{}, cfg)
	if err != nil {
		return nil, err
	}
	l.SetUnlinkOnClose(false)
	// count the raw accepts (a connection whose handshake fails never reaches the session table)
	cnt := new(int64)
	v17accepts.Store(l, cnt)
	l.ln = &v17CountLn{Listener: l.ln, n: cnt}
	go func() { _ = l.Run() }()
	return l, nil
}

var v17accepts sync.Map // *Listener -> *int64

type v17CountLn struct {
	net.Listener
	n *int64
}

func (c *v17CountLn) Accept() (net.Conn, error) {
	conn, err := c.Listener.Accept()
	if err == nil {
		atomic.AddInt64(c.n, 1)
	}
	return conn, err
}

func v17RawAccepts(l *Listener) int64 {
	if v, ok := v17accepts.Load(l); ok {
		return atomic.LoadInt64(v.(*int64))
	}
	return -1
}

func v17LiveSessions(l *Listener) int {
	l.sessions.sessionMu.Lock()
	defer l.sessions.sessionMu.Unlock()
	n := 0
	for s := range l.sessions.data {
		if !s.IsClosed() {
			n++
		}
	}
	return n
}

func v17NewScn(name string, n int, interval time.Duration) (*v17Scn, error) {
	return v17NewScnMem(name, n, interval, MemMapTypeMemFd)
}

// the handshake of a new session occasionally times out on a loaded machine; that says nothing about the
// property: the scenario is set up again, a few times at most
func v17NewScnMem(name string, n int, interval time.Duration, mem MemMapType) (sc *v17Scn, err error) {
	for attempt := 0; attempt < 4; attempt++ {
		if sc, err = v17NewScnMemOnce(name, n, interval, mem); err == nil {
			return sc, nil
		}
		time.Sleep(time.Duration(200*(attempt+1)) * time.Millisecond)
	}
	return nil, err
}

func v17NewScnMemOnce(name string, n int, interval time.Duration, mem MemMapType) (*v17Scn, error) {
	pid := os.Getpid()
	sc := &v17Scn{name: name, n: n, t0: time.Now(), interval: interval,
		path:   fmt.Sprintf("/tmp/v17_%d_%s.sock", pid, name),
		prefix: fmt.Sprintf("/dev/shm/v17_%d_%s", pid, name),
		feat:   map[string]bool{}, stats: map[string]int64{}, notes: map[string]string{},
		objID: map[*streamPool]int{}, srvSeen: map[*Listener]map[*Session]bool{},
		stopSampler: make(chan struct{}), samplerDone: make(chan struct{})}
	os.Remove(sc.path)
	var err error
	if sc.lis, err = v17NewListener(sc.path); err != nil {
		return nil, err
	}
	conf := DefaultSessionManagerConfig()
	conf.Address, conf.Network, conf.SessionNum = sc.path, "unix", n
	conf.MemMapType = mem
	conf.ShareMemoryPathPrefix = sc.prefix
	conf.QueuePath = sc.prefix + "_queue"
	conf.ShareMemoryBufferCap = 4 << 20
	conf.rebuildInterval = interval
	if conf.InitializeTimeout < 5*time.Second {
		conf.InitializeTimeout = 5 * time.Second
	}
	if sc.sm, err = NewSessionManager(conf); err != nil {
		sc.lis.Close()
		return nil, err
	}
	dl := time.Now().Add(3 * time.Second)
	for sc.accepted(sc.lis) < n {
		if time.Now().After(dl) {
			sc.sm.Close()
			sc.lis.Close()
			return nil, fmt.Errorf("server sessions did not appear")
		}
		time.Sleep(5 * time.Millisecond)
	}
	v17reg.Lock()
	v17reg.byMgr[sc.sm] = sc
	v17reg.Unlock()
	sc.mu.Lock()
	sc.last = sc.snapshot()
	sc.mu.Unlock()
	return sc, nil
}

func (sc *v17Scn) startSampler() {
	go func() {
		defer close(sc.samplerDone)
		for {
			select {
			case <-sc.stopSampler:
				return
			default:
			}
			sc.mu.Lock()
			sc.observe()
			sc.mu.Unlock()
			time.Sleep(2 * time.Millisecond)
		}
	}()
}

func (sc *v17Scn) stopSamplerNow() {
	select {
	case <-sc.samplerDone:
		return
	default:
	}
	close(sc.stopSampler)
	<-sc.samplerDone
}

func (sc *v17Scn) peek() *v17Obs {
	sc.mu.Lock()
	defer sc.mu.Unlock()
	return sc.observe()
}

// server session currently paired with the session of pool id on listener l
func (sc *v17Scn) serverSessionOf(l *Listener, id int) *Session {
	sc.sm.RLock()
	name := sc.sm.pools[id].Session().name
	sc.sm.RUnlock()
	l.sessions.sessionMu.Lock()
	defer l.sessions.sessionMu.Unlock()
	for s := range l.sessions.data {
		if s.name == name {
			return s
		}
	}
	return nil
}

// GetStream probe on pool k; with echo if wanted.  Returns error-free?
func (sc *v17Scn) probe(k int, echo bool) bool {
	sc.mu.Lock()
	defer sc.mu.Unlock()
	before := sc.observe()
	sc.sm.RLock()
	p := sc.sm.pools[k]
	sc.sm.RUnlock()
	t := time.Now()
	st, err := p.getOrOpenStream()
	d := time.Since(t)
	sc.stats["probes"]++
	if d > 500*time.Millisecond {
		sc.failLocked("C17:getstream-blocked", fmt.Sprintf("getOrOpenStream on pool %d took %v (err=%v)", k, d, err))
	}
	okEcho := true
	if err == nil && echo {
		msg := fmt.Sprintf("probe-%d-%d", k, sc.stats["probes"])
		okEcho = false
		if e := st.BufferWriter().WriteString(msg); e == nil {
			if e = st.Flush(false); e == nil {
				_ = st.SetReadDeadline(time.Now().Add(3 * time.Second))
				got, e2 := st.BufferReader().ReadString(len(msg))
				okEcho = e2 == nil && got == msg
			}
		}
		if okEcho {
			sc.stats["echo_ok"]++
		} else {
			sc.stats["echo_failed"]++
		}
	}
	if err == nil {
		if okEcho {
			sc.sm.PutBack(st)
		} else {
			st.Close()
		}
	} else {
		sc.stats["probe_errors"]++
	}
	after := sc.snapshot()
	id := before.Pools[k]
	if after.Pools[k] == id && after.sess[id] == before.sess[id] && after.Objs[id][1] == before.Objs[id][1] {
		if err != nil && before.Objs[id][1] == 1 && p.Session().IsHealthy() {
			sc.failLocked("C17:getstream-failed-on-live-pool", fmt.Sprintf("pool %d: %v", k, err))
		}
		if err == nil && before.Objs[id][1] == 0 {
			sc.failLocked("C17:getstream-succeeded-on-closed-session", fmt.Sprintf("pool %d", k))
		}
		sc.hist = append(sc.hist, v17Ev{K: "gs", I: k, Ok: err == nil, T: sc.ms(), Us: int64(d / time.Microsecond)})
	}
	return err == nil && okEcho
}

func (sc *v17Scn) waitFor(bound time.Duration, cond func(o *v17Obs) bool) bool {
	dl := time.Now().Add(bound)
	for time.Now().Before(dl) {
		if cond(sc.peek()) {
			return true
		}
		time.Sleep(5 * time.Millisecond)
	}
	return false
}

// SessionManager.Close with its duration; the sampler is stopped first (see Corr/RebuildCorr.v)
func (sc *v17Scn) closeManager() time.Duration { return sc.closeManagerOpt(true) }

// preObserve = false: no snapshot before Close (a watcher holds sm.Lock during its dial)
func (sc *v17Scn) closeManagerOpt(preObserve bool) time.Duration {
	sc.stopSamplerNow()
	sc.mu.Lock()
	if preObserve {
		sc.observe()
	}
	sc.hist = append(sc.hist, v17Ev{K: "closebegin", T: sc.ms()})
	atomic.StoreInt32(&sc.closing, 1)
	sc.mu.Unlock()
	t := time.Now()
	done := make(chan struct{})
	go func() { sc.sm.Close(); close(done) }()
	select {
	case <-done:
	case <-time.After(6 * time.Second):
		sc.fail("C17:session-manager-close-blocked", "SessionManager.Close did not return within 6 s")
		return time.Since(t)
	}
	d := time.Since(t)
	sc.mu.Lock()
	// what the manager did while Close was waiting (a hot restart that ended) comes before the end of Close
	q := sc.snapshot()
	evs := sc.infer(sc.last, q)
	evs = append(evs, v17Ev{K: "closeend", T: sc.ms()})
	evs[len(evs)-1].Obs = q
	sc.hist = append(sc.hist, evs...)
	sc.last = q
	sc.mu.Unlock()
	return d
}

func (sc *v17Scn) cleanup() {
	sc.stopSamplerNow()
	v17reg.Lock()
	delete(v17reg.byMgr, sc.sm)
	v17reg.Unlock()
	if atomic.LoadInt32(&sc.closing) == 0 {
		done := make(chan struct{})
		go func() { sc.sm.Close(); close(done) }()
		select {
		case <-done:
		case <-time.After(6 * time.Second):
		}
	}
	sc.sm.RLock()
	for _, p := range sc.sm.reservePools {
		if p != nil {
			p.close()
		}
	}
	sc.sm.RUnlock()
	for _, p := range sc.objs { // whatever a watcher may have parked somewhere
		p.close()
	}
	if sc.oldLis != nil {
		sc.oldLis.Close()
	}
	if sc.lis != nil {
		sc.lis.Close()
	}
	os.Remove(sc.path)
}

func (sc *v17Scn) result() v17Case {
	c := v17Case{ID: sc.name, N: sc.n, Hist: sc.hist, Oracle: sc.oracle, Ambiguous: sc.ambiguous, Stats: sc.stats, Notes: sc.notes}
	for f := range sc.feat {
		c.Feat = append(c.Feat, f)
	}
	c.Stats["events"] = int64(len(sc.hist))
	return c
}

// kill the server end of pool id's session; wait until the client end is observed closed
func (sc *v17Scn) killServerSession(l *Listener, id int) bool {
	s := sc.serverSessionOf(l, id)
	if s == nil {
		sc.fail("C17:harness-setup", fmt.Sprintf("no server session for pool %d", id))
		return false
	}
	s.Close()
	return sc.waitFor(4*time.Second, func(o *v17Obs) bool { return o.Objs[o.Pools[id]][1] == 0 })
}

// the watcher reacted to a loss: pool.close() drained the ring
func (sc *v17Scn) checkPoolClosed(id int, parked []*Stream) {
	time.Sleep(60 * time.Millisecond)
	sc.sm.RLock()
	p := sc.sm.pools[id]
	sc.sm.RUnlock()
	p.Lock()
	inRing := p.tail - p.head
	p.Unlock()
	if inRing != 0 {
		sc.fail("C17:lost-pool-not-closed", fmt.Sprintf("pool %d: %d idle streams still in the ring 60 ms after its session was lost", id, inRing))
	}
	for _, st := range parked {
		if st.IsOpen() {
			sc.fail("C17:lost-pool-not-closed", fmt.Sprintf("pool %d: an idle stream is still open", id))
			break
		}
	}
}

func (sc *v17Scn) parkIdleStreams(id int, k int) []*Stream {
	sc.sm.RLock()
	p := sc.sm.pools[id]
	sc.sm.RUnlock()
	var sts []*Stream
	for i := 0; i < k; i++ {
		if st, err := p.getOrOpenStream(); err == nil {
			sts = append(sts, st)
		}
	}
	for _, st := range sts {
		p.putOrCloseStream(st)
	}
	return sts
}

// gap: GetStream on the lost pool fails, promptly, every time
func (sc *v17Scn) probeGap(id int, times int) {
	for i := 0; i < times; i++ {
		if sc.probe(id, false) {
			o := sc.peek()
			if o.Objs[o.Pools[id]][1] == 0 {
				sc.fail("C17:getstream-succeeded-on-closed-session", fmt.Sprintf("pool %d", id))
			}
			return // healed meanwhile
		}
		time.Sleep(7 * time.Millisecond)
	}
}

func (sc *v17Scn) waitHealed(id int, bound time.Duration) bool {
	ok := sc.waitFor(bound, func(o *v17Obs) bool { return o.Objs[o.Pools[id]][1] == 1 })
	if !ok {
		sc.fail("C17:lost-pool-not-rebuilt", fmt.Sprintf("pool %d still holds a closed session %v after the loss (rebuildInterval %v, server reachable)", id, bound, sc.interval))
		return false
	}
	if !sc.probe(id, true) {
		sc.fail("C17:getstream-fails-after-rebuild", fmt.Sprintf("pool %d", id))
	}
	return true
}

// ------------------------------------------------------------------------------------------ scenarios

func v17KillOne(name string, n int, interval time.Duration, victim int, repeat int) v17Case {
	sc, err := v17NewScn(name, n, interval)
	if err != nil {
		return v17Case{ID: name, N: n, Oracle: []string{"C17:harness-setup | " + err.Error()}, SkipModel: true}
	}
	sc.feat["session-killed"] = true
	if repeat > 1 {
		sc.feat["repeated-loss"] = true
	}
	sc.startSampler()
	for k := 0; k < n; k++ {
		sc.probe(k, true)
	}
	for r := 0; r < repeat; r++ {
		before := sc.accepted(sc.lis)
		parked := sc.parkIdleStreams(victim, 3)
		t := time.Now()
		if !sc.killServerSession(sc.lis, victim) {
			sc.fail("C17:harness-setup", "client end did not notice the kill within 4 s")
			break
		}
		sc.setStat("notice_ms", int64(time.Since(t)/time.Millisecond))
		sc.checkPoolClosed(victim, parked)
		sc.probeGap(victim, 6)
		for k := 0; k < n; k++ {
			if k != victim && !sc.probe(k, true) {
				sc.fail("C17:healthy-pool-disturbed", fmt.Sprintf("pool %d", k))
			}
		}
		th := time.Now()
		if sc.waitHealed(victim, interval+3*time.Second) {
			sc.setStat("heal_ms", int64(time.Since(th)/time.Millisecond))
		}
		time.Sleep(2*interval + 100*time.Millisecond)
		if got := sc.accepted(sc.lis) - before; got != 1 {
			sc.fail("C17:wrong-number-of-sessions-rebuilt", fmt.Sprintf("one session lost, %d sessions accepted by the server afterwards", got))
		}
	}
	afterClose := sc.accepted(sc.lis)
	d := sc.closeManager()
	sc.setStat("close_ms", int64(d/time.Millisecond))
	time.Sleep(3*interval + 100*time.Millisecond)
	if got := sc.accepted(sc.lis); got != afterClose {
		sc.fail("C17:session-created-after-close", fmt.Sprintf("%d sessions accepted after SessionManager.Close", got-afterClose))
	}
	sc.cleanup()
	return sc.result()
}

// the whole server goes away and comes back later
func v17ServerDown(name string, n int, interval time.Duration, down time.Duration) v17Case {
	sc, err := v17NewScn(name, n, interval)
	if err != nil {
		return v17Case{ID: name, N: n, Oracle: []string{"C17:harness-setup | " + err.Error()}, SkipModel: true}
	}
	sc.feat["server-down"], sc.feat["dial-fails"] = true, true
	sc.startSampler()
	for k := 0; k < n; k++ {
		sc.probe(k, true)
	}
	old := sc.lis
	old.Close()
	os.Remove(sc.path)
	if !sc.waitFor(4*time.Second, func(o *v17Obs) bool {
		for _, id := range o.Pools {
			if o.Objs[id][1] == 1 {
				return false
			}
		}
		return true
	}) {
		sc.fail("C17:harness-setup", "client sessions did not notice the server's exit within 4 s")
	}
	t := time.Now()
	for time.Since(t) < down {
		for k := 0; k < n; k++ {
			if sc.probe(k, false) {
				sc.fail("C17:getstream-succeeded-while-server-down", fmt.Sprintf("pool %d", k))
			}
		}
		time.Sleep(15 * time.Millisecond)
	}
	o := sc.peek()
	for k, id := range o.Pools {
		if o.Objs[id][1] == 1 {
			sc.fail("C17:pool-alive-while-server-down", fmt.Sprintf("pool %d", k))
		}
	}
	sc.mu.Lock()
	sc.oldLis = nil
	sc.lis = nil
	sc.mu.Unlock()
	nl, err := v17NewListener(sc.path)
	if err != nil {
		sc.fail("C17:harness-setup", err.Error())
	}
	sc.mu.Lock()
	sc.lis = nl
	sc.mu.Unlock()
	for k := 0; k < n; k++ {
		sc.waitHealed(k, interval+3*time.Second)
	}
	time.Sleep(2*interval + 100*time.Millisecond)
	if got := sc.accepted(nl); got != n {
		sc.fail("C17:wrong-number-of-sessions-rebuilt", fmt.Sprintf("%d pools lost, %d sessions accepted by the restarted server", n, got))
	}
	d := sc.closeManager()
	sc.setStat("close_ms", int64(d/time.Millisecond))
	sc.cleanup()
	return sc.result()
}

// hot restart, then the old server lets go: the parked sessions die, the watchers (still holding the
// parked pool objects) must NOT rebuild.  equal = the announced epoch equals the sessions' epoch (0).
func v17HotRestart(name string, n int, interval time.Duration, epoch uint64) v17Case {
	sc, err := v17NewScn(name, n, interval)
	if err != nil {
		return v17Case{ID: name, N: n, Oracle: []string{"C17:harness-setup | " + err.Error()}, SkipModel: true}
	}
	sc.feat["hot-restart"] = true
	if epoch == 0 {
		sc.feat["equal-epochs"] = true
	}
	sc.startSampler()
	for k := 0; k < n; k++ {
		sc.probe(k, true)
	}
	oldL := sc.lis
	nl, err := v17NewListener(sc.path)
	if err != nil {
		sc.fail("C17:harness-setup", err.Error())
	}
	sc.mu.Lock()
	sc.oldLis, sc.lis = oldL, nl
	sc.mu.Unlock()
	if err := oldL.HotRestart(epoch); err != nil {
		sc.fail("C17:harness-setup", "HotRestart: "+err.Error())
	}
	dl := time.Now().Add(hotRestartCheckTimeout + 2*time.Second)
	for time.Now().Before(dl) && !oldL.IsHotRestartDone() {
		time.Sleep(10 * time.Millisecond)
	}
	time.Sleep(150 * time.Millisecond)
	o := sc.peek()
	swapped := 0
	for i := range o.Pools {
		if o.Pools[i] >= n {
			swapped++
		}
	}
	if swapped != n || sc.accepted(nl) != n {
		sc.fail("C17:harness-setup", fmt.Sprintf("hand-over incomplete: %d/%d pools swapped, %d sessions on the new server", swapped, n, sc.accepted(nl)))
	}
	for k := 0; k < n; k++ {
		sc.probe(k, true)
	}
	// the old server lets go
	oldL.Close()
	sc.waitFor(4*time.Second, func(o *v17Obs) bool {
		for id := 0; id < n; id++ {
			if o.Objs[id][1] == 1 {
				return false
			}
		}
		return true
	})
	// give the watchers several intervals
	time.Sleep(4*interval + 300*time.Millisecond)
	o = sc.peek()
	extra := sc.accepted(nl) - n
	sc.setStat("sessions_on_new_server", int64(sc.accepted(nl)))
	if extra != 0 {
		into := "a pool object that is no longer in sm.pools"
		sig := "C17:swapped-pool-rebuilt-a-second-time"
		if epoch == 0 {
			sig = "C17:equal-epoch-hot-restart-defeats-rebuild-guard"
		}
		sc.fail(sig, fmt.Sprintf("HotRestart(%d) moved %d pools (sessions had epoch 0); after the old server closed its sessions the watchers dialled %d more sessions to the new server, stored into %s (rebuilt_into_unreferenced_pool=%d)",
			epoch, n, extra, into, sc.stats["rebuilt_into_unreferenced_pool"]))
	}
	for k := 0; k < n; k++ {
		if !sc.probe(k, true) {
			sc.fail("C17:getstream-fails-after-hot-restart", fmt.Sprintf("pool %d", k))
		}
	}
	afterClose := sc.accepted(nl)
	d := sc.closeManager()
	sc.setStat("close_ms", int64(d/time.Millisecond))
	time.Sleep(2*interval + 100*time.Millisecond)
	if got := sc.accepted(nl); got != afterClose {
		sc.fail("C17:session-created-after-close", fmt.Sprintf("%d", got-afterClose))
	}
	sc.cleanup()
	return sc.result()
}

// SessionManager.Close after a completed hot restart while the OLD server is still alive: the parked
// sessions belong to the manager.  If Close leaves them open, a HotRestart event that the old server
// sends on one of them afterwards (what Listener.HotRestart sends again after a listener-side
// time-out) is handled by the closed manager: it dials and swaps pools after Close.
func v17CloseWithParked(name string, n int, interval time.Duration, epoch uint64) v17Case {
	sc, err := v17NewScn(name, n, interval)
	if err != nil {
		return v17Case{ID: name, N: n, Oracle: []string{"C17:harness-setup | " + err.Error()}, SkipModel: true}
	}
	sc.feat["hot-restart"], sc.feat["close-with-parked-sessions"] = true, true
	sc.startSampler()
	oldL := sc.lis
	srv0 := sc.serverSessionOf(oldL, 0)
	nl, err := v17NewListener(sc.path)
	if err != nil || srv0 == nil {
		sc.fail("C17:harness-setup", "second listener / server session")
	}
	sc.mu.Lock()
	sc.oldLis, sc.lis = oldL, nl
	sc.mu.Unlock()
	if err := oldL.HotRestart(epoch); err != nil {
		sc.fail("C17:harness-setup", "HotRestart: "+err.Error())
	}
	dl := time.Now().Add(hotRestartCheckTimeout + 2*time.Second)
	for time.Now().Before(dl) && !oldL.IsHotRestartDone() {
		time.Sleep(10 * time.Millisecond)
	}
	time.Sleep(150 * time.Millisecond)
	if sc.accepted(nl) != n {
		sc.fail("C17:harness-setup", fmt.Sprintf("hand-over incomplete: %d sessions on the new server", sc.accepted(nl)))
	}
	for k := 0; k < n; k++ {
		sc.probe(k, true)
	}
	var parked []*Session
	sc.sm.RLock()
	for _, p := range sc.sm.reservePools {
		if p != nil {
			parked = append(parked, p.Session())
		}
	}
	sc.sm.RUnlock()
	d := sc.closeManager()
	sc.setStat("close_ms", int64(d/time.Millisecond))
	time.Sleep(100 * time.Millisecond)
	open := 0
	for _, s := range parked {
		if !s.IsClosed() {
			open++
		}
	}
	sc.setStat("parked_sessions", int64(len(parked)))
	sc.setStat("parked_sessions_open_after_close", int64(open))
	before := sc.accepted(nl)
	if srv0 != nil && !srv0.IsClosed() {
		_ = srv0.hotRestart(epoch+1, typeHotRestart)
	}
	time.Sleep(500 * time.Millisecond)
	if got := sc.accepted(nl) - before; got != 0 {
		sc.fail("C17:hot-restart-event-after-close-creates-session",
			fmt.Sprintf("SessionManager.Close returned with %d of %d parked sessions still open; a HotRestart(%d) event sent by the old server on one of them afterwards made the closed manager dial %d new session(s) and swap its pool", open, len(parked), epoch+1, got))
	}
	sc.cleanup()
	return sc.result()
}

// Close while the manager is in hotRestartState and a watcher is in its sleep loop (its session died
// during the restart): `time.Sleep(500ms); continue` does not look at ctx, Close waits for the restart
// to end.  Measured, bounded by the 2 s time-out.
func v17CloseDuringHotRestart(name string, n int, interval time.Duration, epoch uint64) v17Case {
	sc, err := v17NewScn(name, n, interval)
	if err != nil {
		return v17Case{ID: name, N: n, Oracle: []string{"C17:harness-setup | " + err.Error()}, SkipModel: true}
	}
	sc.feat["close-during-hot-restart"], sc.feat["dial-fails"] = true, true
	sc.startSampler()
	os.Remove(sc.path)
	t0 := time.Now()
	if err := sc.lis.HotRestart(epoch); err != nil {
		sc.fail("C17:harness-setup", "HotRestart: "+err.Error())
	}
	sc.waitFor(time.Second, func(o *v17Obs) bool { return o.State == int64(hotRestartState) })
	sc.killServerSession(sc.lis, 0)
	time.Sleep(50 * time.Millisecond)
	o := sc.peek()
	sc.setStat("in_hot_restart_at_close", v17b(o.State == int64(hotRestartState)))
	sc.setStat("close_called_ms_after_hot_restart", int64(time.Since(t0)/time.Millisecond))
	d := sc.closeManager()
	sc.setStat("close_ms", int64(d/time.Millisecond))
	if d > hotRestartCheckTimeout+1500*time.Millisecond {
		sc.fail("C17:close-blocked-by-hot-restart-state", fmt.Sprintf("SessionManager.Close took %v", d))
	}
	sc.cleanup()
	return sc.result()
}

// SessionManager.Close while a rebuild dial is in flight: the pool's session was lost, the rebuild timer
// has fired, the watcher is inside newClientSession (the server accepted the connection but answers the
// handshake late).  Close must wait for that watcher and close what it stored: after Close has returned
// the pool's session is closed, GetStream fails, and the server's end of the replacement goes away.
func v17CloseInFlight(name string, interval time.Duration, delay time.Duration) v17Case {
	pid := os.Getpid()
	sc := &v17Scn{name: name, n: 1, t0: time.Now(), interval: interval,
		path:   fmt.Sprintf("/tmp/v17_%d_%s.sock", pid, name),
		prefix: fmt.Sprintf("/dev/shm/v17_%d_%s", pid, name),
		feat:   map[string]bool{}, stats: map[string]int64{}, notes: map[string]string{},
		objID: map[*streamPool]int{}, srvSeen: map[*Listener]map[*Session]bool{},
		stopSampler: make(chan struct{}), samplerDone: make(chan struct{})}
	bail := func(msg string) v17Case {
		return v17Case{ID: name, N: 1, Oracle: []string{"C17:harness-setup | " + msg}, SkipModel: true}
	}
	os.Remove(sc.path)
	ln, err := net.ListenUnix("unix", &net.UnixAddr{Name: sc.path, Net: "unix"})
	if err != nil {
		return bail(err.Error())
	}
	defer func() { ln.Close(); os.Remove(sc.path) }()
	conns := make(chan net.Conn, 8)
	go func() {
		for {
			c, err := ln.Accept()
			if err != nil {
				return
			}
			conns <- c
		}
	}()
	conf := DefaultSessionManagerConfig()
	conf.Address, conf.Network, conf.SessionNum = sc.path, "unix", 1
	conf.MemMapType = MemMapTypeMemFd
	conf.ShareMemoryPathPrefix = sc.prefix
	conf.QueuePath = sc.prefix + "_queue"
	conf.ShareMemoryBufferCap = 4 << 20
	conf.rebuildInterval = interval
	if conf.InitializeTimeout < 5*time.Second {
		conf.InitializeTimeout = 5 * time.Second
	}
	conf.InitializeTimeout = 5 * time.Second
	serve := func(c net.Conn, d time.Duration) <-chan *Session {
		ch := make(chan *Session, 1)
		go func() {
			time.Sleep(d)
			sconf := *conf.Config
			s, err := Server(c, &sconf)
			if err != nil {
				ch <- nil
				return
			}
			ch <- s
		}()
		return ch
	}
	first := make(chan *Session, 1)
	go func() {
		select {
		case c := <-conns:
			first <- <-serve(c, 0)
		case <-time.After(5 * time.Second):
			first <- nil
		}
	}()
	if sc.sm, err = NewSessionManager(conf); err != nil {
		return bail(err.Error())
	}
	s1 := <-first
	if s1 == nil {
		sc.sm.Close()
		return bail("no first server session")
	}
	sc.feat["session-killed"], sc.feat["close-while-rebuild-dial-in-flight"] = true, true
	v17reg.Lock()
	v17reg.byMgr[sc.sm] = sc
	v17reg.Unlock()
	sc.mu.Lock()
	sc.last = sc.snapshot()
	sc.mu.Unlock()
	sc.startSampler()
	sc.probe(0, false)

	s1.Close()
	if !sc.waitFor(5*time.Second, func(o *v17Obs) bool { return o.Objs[o.Pools[0]][1] == 0 }) {
		sc.fail("C17:harness-setup", "client end did not notice the lost session")
	}
	sc.probeGap(0, 2)
	// no snapshots while the dial is in flight: the watcher holds sm.Lock across newClientSession
	sc.stopSamplerNow()
	var c2 net.Conn
	select {
	case c2 = <-conns:
	case <-time.After(interval + 5*time.Second):
		sc.fail("C17:lost-pool-not-rebuilt", "no rebuild dial seen")
	}
	var s2 *Session
	if c2 != nil {
		second := serve(c2, delay)
		// the dial is on the wire: the rebuild timer of pool 0 has fired
		sc.mu.Lock()
		sc.hist = append(sc.hist, v17Ev{K: "timer", I: 0, T: sc.ms()})
		sc.mu.Unlock()
		time.Sleep(delay / 5)
		d := sc.closeManagerOpt(false)
		sc.setStat("close_ms", int64(d/time.Millisecond))
		s2 = <-second
		// what the property promises once Close has returned
		sc.sm.RLock()
		cur := sc.sm.pools[0].Session()
		sc.sm.RUnlock()
		live := !cur.IsClosed()
		sc.setStat("pool_session_live_after_close", v17b(live))
		if live {
			sc.fail("C17:close-returns-with-live-session", fmt.Sprintf("SessionManager.Close was called while the rebuild dial of pool 0 was in flight (server handshake delayed %v); after Close returned the pool holds a live session (the replacement, stored after the pools were closed)", delay))
		}
		t := time.Now()
		st, gerr := sc.sm.GetStream()
		if gerr == nil {
			sc.fail("C17:getstream-succeeds-after-close", fmt.Sprintf("GetStream on the closed manager returned stream of session epoch %d", st.Session().epochID))
			st.Close()
		}
		if time.Since(t) > 500*time.Millisecond {
			sc.fail("C17:getstream-blocked", "GetStream after Close")
		}
		if s2 != nil {
			select {
			case <-s2.CloseChan():
				sc.setStat("server_end_closed", 1)
			case <-time.After(4 * time.Second):
				sc.setStat("server_end_closed", 0)
				sc.fail("C17:server-session-left-after-close", "4 s after SessionManager.Close returned the server still holds a live session with the closed manager")
			}
		} else {
			sc.setNote("server", "the delayed server handshake failed (client gave up)")
		}
	}
	sc.cleanup()
	if s2 != nil {
		s2.Close()
	}
	s1.Close()
	return sc.result()
}

// Regression scenario for "C17:hot-restart-event-during-close-leaves-live-session": a hot-restart event
// arrives on a parked session while SessionManager.Close runs.  The interleaving is forced by holding
// sm.RLock: the handler queues for sm.Lock first, Close (cancel, wg.Wait, ...) queues behind it.  Whatever
// the handler does, after Close has returned the manager owns no live session.
func v17CloseRace(name string, n int, interval time.Duration, epoch uint64) v17Case {
	sc, err := v17NewScn(name, n, interval)
	if err != nil {
		return v17Case{ID: name, N: n, Oracle: []string{"C17:harness-setup | " + err.Error()}, SkipModel: true}
	}
	sc.feat["hot-restart"], sc.feat["hot-restart-event-during-close"] = true, true
	sc.startSampler()
	oldL := sc.lis
	srv0 := sc.serverSessionOf(oldL, 0)
	nl, err := v17NewListener(sc.path)
	if err != nil || srv0 == nil {
		sc.fail("C17:harness-setup", "second listener / server session")
	}
	sc.mu.Lock()
	sc.oldLis, sc.lis = oldL, nl
	sc.mu.Unlock()
	if err := oldL.HotRestart(epoch); err != nil {
		sc.fail("C17:harness-setup", "HotRestart: "+err.Error())
	}
	dl := time.Now().Add(hotRestartCheckTimeout + 2*time.Second)
	for time.Now().Before(dl) && !oldL.IsHotRestartDone() {
		time.Sleep(10 * time.Millisecond)
	}
	time.Sleep(150 * time.Millisecond)
	if sc.accepted(nl) != n {
		sc.fail("C17:harness-setup", fmt.Sprintf("hand-over incomplete: %d sessions on the new server", sc.accepted(nl)))
	}
	// from here on the history is written by hand: the handler wrapper would need sc.mu and sm's lock
	sc.stopSamplerNow()
	v17reg.Lock()
	delete(v17reg.byMgr, sc.sm)
	v17reg.Unlock()
	sc.mu.Lock()
	sc.observe()
	sc.hist = append(sc.hist, v17Ev{K: "closebegin", T: sc.ms()})
	atomic.StoreInt32(&sc.closing, 1)
	sc.mu.Unlock()

	sc.sm.RLock()
	if srv0 != nil && !srv0.IsClosed() {
		_ = srv0.hotRestart(epoch+1, typeHotRestart) // what the old server sends when it tries again
	}
	time.Sleep(150 * time.Millisecond) // the handler is queued at sm.Lock()
	t := time.Now()
	done := make(chan struct{})
	go func() { sc.sm.Close(); close(done) }()
	time.Sleep(150 * time.Millisecond) // Close is past cancel and wg.Wait, queued behind the handler
	sc.sm.RUnlock()
	select {
	case <-done:
	case <-time.After(8 * time.Second):
		sc.fail("C17:session-manager-close-blocked", "SessionManager.Close did not return within 8 s")
	}
	sc.setStat("close_ms", int64(time.Since(t)/time.Millisecond))
	time.Sleep(200 * time.Millisecond) // a handler that ran after Close would have dialled by now
	sc.mu.Lock()
	q := sc.snapshot()
	sc.hist = append(sc.hist, v17Ev{K: "closeend", T: sc.ms(), Obs: q})
	sc.last = q
	sc.mu.Unlock()
	live := 0
	for k, id := range q.Pools {
		if q.Objs[id][1] == 1 {
			live++
			sc.fail("C17:hot-restart-event-during-close-leaves-live-session",
				fmt.Sprintf("a HotRestart(%d) event reached the manager on a parked session while SessionManager.Close was running; after Close returned pool %d holds a live session of epoch %d", epoch+1, k, q.Objs[id][0]))
		}
	}
	sc.setStat("live_pool_sessions_after_close", int64(live))
	if st, gerr := sc.sm.GetStream(); gerr == nil {
		sc.fail("C17:hot-restart-event-during-close-leaves-live-session", "GetStream on the closed manager succeeded")
		st.Close()
	}
	// the new server's ends of this manager's sessions go away
	gone := false
	dl = time.Now().Add(4 * time.Second)
	for time.Now().Before(dl) && !gone {
		cnt := 0
		nl.sessions.sessionMu.Lock()
		for s := range nl.sessions.data {
			if !s.IsClosed() {
				cnt++
			}
		}
		nl.sessions.sessionMu.Unlock()
		gone = cnt == 0
		if !gone {
			time.Sleep(50 * time.Millisecond)
		}
	}
	if !gone {
		sc.fail("C17:hot-restart-event-during-close-leaves-live-session", "4 s after SessionManager.Close returned the new server still holds a live session with the closed manager")
	}
	sc.cleanup()
	return sc.result()
}

// ------------------------------------------------------------------------------------------ source shape
// What the model assumes about the ORDER of statements in session_manager.go, read structurally from the
// current source (go/ast; no identifier names of locals are relied upon):
//
//	timer receive  = a receive from X.C where X was assigned from time.NewTimer / time.NewTicker, or a
//	                 receive from time.After(...) / time.Tick(...), in the statement list that holds the dial
//	identity check = a comparison (!= or ==, either order) of <recv>.pools[...] with an identifier
//	dial           = the call of newClientSession;   store = a call <x>.session.Store(...)
//	lock regions   = <recv>.Lock() / <recv>.Unlock() calls that are statements of that same list
//
// Every fact is three-valued: true / false (positively established) / null (could not be read).
type v17Shape struct {
	Found               bool   `json:"found"`
	CheckAfterTimer     *bool  `json:"check_after_timer"`
	CheckInLockWithDial *bool  `json:"check_in_lock_with_dial"`
	StoreAfterUnlock    *bool  `json:"store_after_unlock"`
	CloseWaitFirst      *bool  `json:"close_wait_before_closing"`
	CloseUnderLock      *bool  `json:"close_under_lock"`
	Err                 string `json:"err,omitempty"`
}

func v17B(b bool) *bool { return &b }

func v17Contains(n ast.Node, pred func(ast.Node) bool) bool {
	found := false
	ast.Inspect(n, func(x ast.Node) bool {
		if x != nil && pred(x) {
			found = true
		}
		return !found
	})
	return found
}

// root identifier and last selector of a call's function: sm.Lock -> ("sm","Lock"); sm.wg.Wait -> ("sm","Wait")
func v17CallPath(n ast.Node) (root string, chain []string, ok bool) {
	c, isCall := n.(*ast.CallExpr)
	if !isCall {
		return "", nil, false
	}
	var e ast.Expr = c.Fun
	for {
		switch x := e.(type) {
		case *ast.SelectorExpr:
			chain = append([]string{x.Sel.Name}, chain...)
			e = x.X
			continue
		case *ast.IndexExpr: // sm.pools[i].close()
			e = x.X
			continue
		case *ast.ParenExpr:
			e = x.X
			continue
		case *ast.Ident:
			return x.Name, chain, true
		}
		return "", nil, false
	}
}

func v17IsMethodStmt(st ast.Stmt, recv, name string) bool {
	es, ok := st.(*ast.ExprStmt)
	if !ok {
		return false
	}
	root, chain, ok := v17CallPath(es.X)
	return ok && root == recv && len(chain) >= 1 && chain[len(chain)-1] == name
}

func v17IsPkgCall(n ast.Node, pkg string, names ...string) bool {
	root, chain, ok := v17CallPath(n)
	if !ok || root != pkg || len(chain) != 1 {
		return false
	}
	for _, nm := range names {
		if chain[0] == nm {
			return true
		}
	}
	return false
}

func v17IsDial(n ast.Node) bool {
	root, chain, ok := v17CallPath(n)
	return ok && root == "newClientSession" && len(chain) == 0
}

func v17IsStore(n ast.Node) bool {
	_, chain, ok := v17CallPath(n)
	return ok && len(chain) >= 2 && chain[len(chain)-1] == "Store" && chain[len(chain)-2] == "session"
}

func v17IsIdentityCheck(recv string) func(ast.Node) bool {
	isPools := func(e ast.Expr) bool {
		ix, ok := e.(*ast.IndexExpr)
		if !ok {
			return false
		}
		sel, ok := ix.X.(*ast.SelectorExpr)
		if !ok || sel.Sel.Name != "pools" {
			return false
		}
		id, ok := sel.X.(*ast.Ident)
		return ok && id.Name == recv
	}
	isVar := func(e ast.Expr) bool {
		id, ok := e.(*ast.Ident)
		return ok && id.Name != "nil"
	}
	return func(n ast.Node) bool {
		b, ok := n.(*ast.BinaryExpr)
		if !ok || (b.Op != token.NEQ && b.Op != token.EQL) {
			return false
		}
		return (isPools(b.X) && isVar(b.Y)) || (isPools(b.Y) && isVar(b.X))
	}
}

func v17ReadShape() v17Shape {
	var sh v17Shape
	fset := token.NewFileSet()
	f, err := parser.ParseFile(fset, "session_manager.go", nil, 0)
	if err != nil {
		sh.Err = err.Error()
		return sh
	}
	var bg, cl *ast.FuncDecl
	recvOf := func(fd *ast.FuncDecl) (typ, name string) {
		if fd.Recv == nil || len(fd.Recv.List) != 1 {
			return "", ""
		}
		if len(fd.Recv.List[0].Names) == 1 {
			name = fd.Recv.List[0].Names[0].Name
		}
		if st, ok := fd.Recv.List[0].Type.(*ast.StarExpr); ok {
			if id, ok := st.X.(*ast.Ident); ok {
				typ = id.Name
			}
		}
		return
	}
	for _, d := range f.Decls {
		if fd, ok := d.(*ast.FuncDecl); ok {
			if t, _ := recvOf(fd); t == "SessionManager" {
				// the watcher lives in the method that holds the rebuild dial; Close is an API name
				if fd.Body != nil && v17Contains(fd.Body, v17IsDial) && v17Contains(fd.Body, func(n ast.Node) bool { _, ok := n.(*ast.GoStmt); return ok }) {
					bg = fd
				}
				if fd.Name.Name == "Close" {
					cl = fd
				}
			}
		}
	}
	if bg == nil || cl == nil {
		sh.Err = "the method of SessionManager with the watcher goroutines (go func + newClientSession) or SessionManager.Close was not found"
		return sh
	}
	_, recv := recvOf(bg)
	// timer variables: assigned from time.NewTimer / time.NewTicker anywhere in the method
	timers := map[string]bool{}
	ast.Inspect(bg, func(n ast.Node) bool {
		if as, ok := n.(*ast.AssignStmt); ok && len(as.Lhs) == len(as.Rhs) {
			for i := range as.Rhs {
				if v17IsPkgCall(as.Rhs[i], "time", "NewTimer", "NewTicker") {
					if id, ok := as.Lhs[i].(*ast.Ident); ok {
						timers[id.Name] = true
					}
				}
			}
		}
		return true
	})
	isTimerRecv := func(n ast.Node) bool {
		u, ok := n.(*ast.UnaryExpr)
		if !ok || u.Op != token.ARROW {
			return false
		}
		if v17IsPkgCall(u.X, "time", "After", "Tick") {
			return true
		}
		sel, ok := u.X.(*ast.SelectorExpr)
		if !ok || sel.Sel.Name != "C" {
			return false
		}
		id, ok := sel.X.(*ast.Ident)
		return ok && timers[id.Name]
	}
	// the innermost statement list one of whose simple statements holds the dial
	var list []ast.Stmt
	ast.Inspect(bg, func(n ast.Node) bool {
		if b, ok := n.(*ast.BlockStmt); ok {
			for _, st := range b.List {
				switch st.(type) {
				case *ast.AssignStmt, *ast.ExprStmt, *ast.DeclStmt:
					if v17Contains(st, v17IsDial) {
						list = b.List
					}
				}
			}
		}
		return true
	})
	if list == nil {
		sh.Err = "the statement list with the newClientSession call was not found in the watcher"
		return sh
	}
	sh.Found = true
	isCheck := v17IsIdentityCheck(recv)
	iTimer, iCheck, iDial, iStore := -1, -1, -1, -1
	for i, st := range list {
		if v17Contains(st, isTimerRecv) {
			iTimer = i // the last one before the dial counts
		}
		if iCheck < 0 && v17Contains(st, isCheck) {
			iCheck = i
		}
		switch st.(type) {
		case *ast.AssignStmt, *ast.ExprStmt, *ast.DeclStmt:
			if iDial < 0 && v17Contains(st, v17IsDial) {
				iDial = i
				if iTimer > i {
					iTimer = -1
				}
			}
		}
		if iStore < 0 && v17Contains(st, v17IsStore) {
			iStore = i
		}
	}
	// timer: the last receive before the dial
	iTimer = -1
	for i := 0; i < iDial; i++ {
		if v17Contains(list[i], isTimerRecv) {
			iTimer = i
		}
	}
	if iTimer >= 0 && iCheck >= 0 {
		sh.CheckAfterTimer = v17B(iCheck > iTimer)
	}
	if iCheck >= 0 && iDial >= 0 {
		if iCheck > iDial {
			sh.CheckInLockWithDial = v17B(false)
		} else {
			verdict := 0 // 1 write lock, -1 something else positively, 0 unknown
			for i := iCheck - 1; i >= 0; i-- {
				if v17IsMethodStmt(list[i], recv, "Unlock") || v17IsMethodStmt(list[i], recv, "RUnlock") || v17IsMethodStmt(list[i], recv, "RLock") {
					verdict = -1
					break
				}
				if v17IsMethodStmt(list[i], recv, "Lock") {
					verdict = 1
					break
				}
			}
			for i := iCheck; i < iDial; i++ {
				if v17IsMethodStmt(list[i], recv, "Unlock") {
					verdict = -1
				}
			}
			if verdict != 0 {
				sh.CheckInLockWithDial = v17B(verdict == 1)
			}
		}
	}
	if iStore > iDial && iDial >= 0 {
		late := false
		for i := iDial + 1; i < iStore; i++ {
			if v17IsMethodStmt(list[i], recv, "Unlock") {
				late = true
			}
		}
		sh.StoreAfterUnlock = v17B(late)
	}
	// Close: wg.Wait() before the first close(); the close() calls between Lock and Unlock
	_, crecv := recvOf(cl)
	iWait, iLock, iUnlock, iFirstClose, iLastClose := -1, -1, -1, -1, -1
	isCloseCall := func(n ast.Node) bool {
		_, chain, ok := v17CallPath(n)
		return ok && len(chain) >= 1 && chain[len(chain)-1] == "close"
	}
	for i, st := range cl.Body.List {
		if v17IsMethodStmt(st, crecv, "Wait") {
			iWait = i
		}
		if v17IsMethodStmt(st, crecv, "Lock") && iLock < 0 {
			iLock = i
		}
		if v17IsMethodStmt(st, crecv, "Unlock") {
			iUnlock = i
		}
		if v17Contains(st, isCloseCall) {
			if iFirstClose < 0 {
				iFirstClose = i
			}
			iLastClose = i
		}
	}
	if iWait >= 0 && iFirstClose >= 0 {
		sh.CloseWaitFirst = v17B(iFirstClose > iWait)
	}
	if iFirstClose >= 0 && iLock >= 0 && iUnlock >= 0 {
		sh.CloseUnderLock = v17B(iFirstClose > iLock && iUnlock > iLastClose)
	}
	return sh
}

// ------------------------------------------------------------------------------------------ swap during the rebuild wait
// A session is lost in defaultState; while its watcher waits for the rebuild timer the hot-restart handler
// for the same session id runs, swaps sm.pools[id] and parks the old pool.  When the timer fires the
// watcher must see that its pool is not sm.pools[id] any more and must not dial.
// inject = the event is handed to the manager exactly as the posted lambda of handleHotRestart does;
// otherwise the old server sends the event and dies at once (event + EOF arrive together).
func v17SwapDuringWait(name string, n int, interval time.Duration, epoch uint64, mem MemMapType, inject bool) v17Case {
	sc, err := v17NewScnMem(name, n, interval, mem)
	if err != nil {
		return v17Case{ID: name, N: n, Oracle: []string{"C17:harness-setup | " + err.Error()}, SkipModel: true}
	}
	sc.feat["session-killed"], sc.feat["hot-restart"], sc.feat["swap-during-rebuild-wait"] = true, true, true
	if mem == MemMapTypeMemFd {
		sc.feat["memfd"] = true
	} else {
		sc.feat["devshm-file"] = true
	}
	sc.startSampler()
	for k := 0; k < n; k++ {
		sc.probe(k, true)
	}
	target := sc.lis // the server the hot-restart handler dials
	var olds []*Session
	sc.sm.RLock()
	for _, p := range sc.sm.pools {
		olds = append(olds, p.Session())
	}
	sc.sm.RUnlock()
	expect := int64(0)
	if inject {
		sc.feat["event-injected-during-wait"] = true
		base := v17RawAccepts(target)
		if !sc.killServerSession(sc.lis, 0) {
			sc.fail("C17:harness-setup", "client end did not notice the kill within 4 s")
		}
		time.Sleep(interval / 4)
		sc.probeGap(0, 1)
		sc.sm.handleEvent(typeHotRestart, &sessionManagerHotRestartParams{epoch: epoch, session: olds[0]})
		expect = base + 1
	} else {
		sc.feat["old-server-sends-event-and-dies"] = true
		oldL := sc.lis
		var srvs []*Session
		for i := 0; i < n; i++ {
			srvs = append(srvs, sc.serverSessionOf(oldL, i))
		}
		nl, err := v17NewListener(sc.path)
		if err != nil {
			sc.fail("C17:harness-setup", err.Error())
		}
		sc.mu.Lock()
		sc.oldLis, sc.lis = oldL, nl
		sc.mu.Unlock()
		target = nl
		for i, s := range srvs {
			if s != nil {
				// the event is written, then the connection goes down almost at once (a server that dies
				// right after announcing the restart).  Depending on how the two reach the client's event
				// loop the event is dropped with the hang-up (plain rebuild), handled before the session is
				// seen closed (watcher paused by hotRestartState), or — the interleaving of interest — the
				// session is closed first and the posted handler swaps the pool during the rebuild wait.
				_ = s.hotRestart(epoch, typeHotRestart)
				time.Sleep(time.Duration(i*i*60) * time.Microsecond)
				_ = syscall.Shutdown(s.connFd, syscall.SHUT_RDWR)
				s.Close()
			}
		}
		expect = int64(n)
	}
	swapped := sc.waitFor(3*time.Second, func(o *v17Obs) bool {
		k := n
		if inject {
			k = 1
		}
		for i := 0; i < k; i++ {
			if o.Pools[i] < n {
				return false
			}
		}
		return true
	})
	if !swapped && inject {
		sc.setNote("setup", "the hot-restart handler did not swap the pool; nothing checked")
	}
	if !inject {
		swapped = true // whatever mixture of swaps and plain rebuilds: one live session and one connection per pool
	}
	// several rebuild intervals, and the end of the hot restart on the client side
	time.Sleep(3*interval + interval/2)
	sc.waitFor(hotRestartCheckTimeout+time.Second, func(o *v17Obs) bool { return o.State != int64(hotRestartState) })
	time.Sleep(interval + 100*time.Millisecond)
	if !inject {
		// pools whose event was dropped, or whose watcher was paused, are rebuilt by their watchers
		sc.waitFor(2*interval+2*time.Second, func(o *v17Obs) bool {
			for i := range o.Pools {
				if o.Objs[o.Pools[i]][1] != 1 {
					return false
				}
			}
			return true
		})
		time.Sleep(2*interval + 100*time.Millisecond)
	}
	got := v17RawAccepts(target)
	live := v17LiveSessions(target)
	sc.setStat("accepts_expected", expect)
	sc.setStat("accepts_seen", got)
	sc.setStat("live_server_sessions", int64(live))
	o := sc.peek()
	wantLive := n
	if swapped && got != expect {
		sc.fail("C17:swapped-pool-rebuilt-a-second-time",
			fmt.Sprintf("a pooled session was lost and, during the rebuild wait (%v), the hot-restart handler replaced its pool; afterwards the server accepted %d connection(s) where %d were expected: the watcher dialled although its pool is no longer sm.pools[id] (rebuilt sessions observed: %d, of which into a parked pool: %d)",
				interval, got, expect, sc.stats["rebuilt"], sc.stats["rebuilt_into_unreferenced_pool"]))
	}
	if swapped && !inject && live != wantLive {
		sc.fail("C17:swapped-pool-rebuilt-a-second-time", fmt.Sprintf("%d live sessions on the new server for %d pools", live, wantLive))
	}
	if swapped {
		k := n
		if inject {
			k = 1
		}
		nswapped := 0
		for i := 0; i < k; i++ {
			if o.Pools[i] >= n { // pool object i was swapped out
				nswapped++
				if o.sess[i] != olds[i] {
					sc.fail("C17:swapped-pool-rebuilt-a-second-time", fmt.Sprintf("the parked pool object of pool %d holds another session than the lost one", i))
				}
			}
		}
		sc.setStat("pools_swapped_by_handler", int64(nswapped))
		for i := 0; i < n; i++ {
			if !sc.probe(i, true) && (i == 0 || !inject) {
				sc.fail("C17:getstream-fails-after-hot-restart", fmt.Sprintf("pool %d", i))
			}
		}
	}
	d := sc.closeManager()
	sc.setStat("close_ms", int64(d/time.Millisecond))
	sc.cleanup()
	return sc.result()
}

// ------------------------------------------------------------------------------------------ the hook after the dial
// props/C17.py compiles the CURRENT session_manager.go through the overlay with one call of this hook in the
// watcher, right after the sm.Unlock() that follows a successful newClientSession (stored = whether
// pool.session.Store(session) stands before that Unlock).  nil except in the scenario below.
var vhookC17AfterDialUnlock func(sm *SessionManager, id int, pool *streamPool, stored bool)
var vhookC17Mu sync.Mutex

// Regression scenario for the order "Store after sm.Unlock()": the pool's session is lost, the watcher dials
// and releases the lock; at that very point the hot-restart handler for the same id runs (the event is handed
// to the manager as the posted lambda of handleHotRestart does) and swaps sm.pools[id]; then the watcher goes
// on.  The replacement must not end up in the pool that was just parked.
func v17StoreRace(name string, interval time.Duration, epoch uint64) v17Case {
	if os.Getenv("VERIF_C17_NOHOOK") == "1" {
		// the plugin did not find the anchor of the hook in the current source: nothing to run here
		return v17Case{ID: name, N: 1, SkipModel: true, Stats: map[string]int64{}, Notes: map[string]string{"hook": "no anchor in the source; scenario not run"}}
	}
	vhookC17Mu.Lock() // one user of the hook at a time
	defer vhookC17Mu.Unlock()
	sc, err := v17NewScn(name, 1, interval)
	if err != nil {
		return v17Case{ID: name, N: 1, Oracle: []string{"C17:harness-setup | " + err.Error()}, SkipModel: true}
	}
	sc.feat["session-killed"], sc.feat["hot-restart"], sc.feat["handler-right-after-the-dial"] = true, true, true
	sc.startSampler()
	sc.probe(0, true)
	sc.sm.RLock()
	oldSess := sc.sm.pools[0].Session()
	sc.sm.RUnlock()
	var ran, swappedInHook, storedFlag int32
	vhookC17AfterDialUnlock = func(sm *SessionManager, id int, pool *streamPool, stored bool) {
		if sm != sc.sm || !atomic.CompareAndSwapInt32(&ran, 0, 1) {
			return
		}
		if stored {
			atomic.StoreInt32(&storedFlag, 1)
		}
		// what is visible now (a session already stored shows up as rebuilt BEFORE the swap), then the dial
		sc.mu.Lock()
		sc.observe()
		if !stored {
			sc.hist = append(sc.hist, v17Ev{K: "dial", I: id, T: sc.ms()})
		}
		sc.mu.Unlock()
		sm.handleEvent(typeHotRestart, &sessionManagerHotRestartParams{epoch: epoch, session: oldSess})
		sm.RLock()
		if sm.pools[id] != pool {
			atomic.StoreInt32(&swappedInHook, 1)
		}
		sm.RUnlock()
	}
	defer func() { vhookC17AfterDialUnlock = nil }()
	base := v17RawAccepts(sc.lis)
	if !sc.killServerSession(sc.lis, 0) {
		sc.fail("C17:harness-setup", "client end did not notice the kill within 4 s")
	}
	dl := time.Now().Add(interval + 4*time.Second)
	for time.Now().Before(dl) && atomic.LoadInt32(&ran) == 0 {
		time.Sleep(5 * time.Millisecond)
	}
	time.Sleep(300 * time.Millisecond)
	sc.waitFor(hotRestartCheckTimeout+time.Second, func(o *v17Obs) bool { return o.State != int64(hotRestartState) })
	time.Sleep(100 * time.Millisecond)
	vhookC17AfterDialUnlock = nil
	if atomic.LoadInt32(&ran) == 0 {
		c := sc.result()
		sc.closeManager()
		sc.cleanup()
		c.SkipModel = true
		c.Notes["hook"] = "the hook compiled into the watcher never ran"
		return c
	}
	o := sc.peek()
	sc.setStat("hook_ran", 1)
	sc.setStat("store_before_unlock", int64(atomic.LoadInt32(&storedFlag)))
	sc.setStat("swapped_in_hook", int64(atomic.LoadInt32(&swappedInHook)))
	sc.setStat("accepts_after_loss", v17RawAccepts(sc.lis)-base)
	sc.setStat("live_server_sessions", int64(v17LiveSessions(sc.lis)))
	sc.mu.Lock()
	badStores := sc.stats["rebuilt_into_unreferenced_pool"]
	sc.mu.Unlock()
	if atomic.LoadInt32(&swappedInHook) == 1 && badStores > 0 {
		parkedLive := o.Pools[0] != 0 && o.Objs[0][1] == 1
		sc.fail("C17:swapped-pool-rebuilt-a-second-time",
			fmt.Sprintf("the watcher of pool 0 dialled a replacement and released sm's lock; the hot-restart handler for that pool ran at that point and swapped sm.pools[0]; the watcher then stored its replacement into the pool that had just been parked (parked pool holds a live session: %v; live sessions on the server for one pool: %d)",
				parkedLive, v17LiveSessions(sc.lis)))
	}
	if !sc.probe(0, true) {
		sc.fail("C17:getstream-fails-after-hot-restart", "pool 0")
	}
	d := sc.closeManager()
	sc.setStat("close_ms", int64(d/time.Millisecond))
	sc.cleanup()
	return sc.result()
}

// Close while a watcher waits for its rebuild timer
func v17CloseDuringWait(name string, n int, interval time.Duration) v17Case {
	sc, err := v17NewScn(name, n, interval)
	if err != nil {
		return v17Case{ID: name, N: n, Oracle: []string{"C17:harness-setup | " + err.Error()}, SkipModel: true}
	}
	sc.feat["close-during-rebuild-wait"] = true
	sc.startSampler()
	before := sc.accepted(sc.lis)
	if !sc.killServerSession(sc.lis, 0) {
		sc.fail("C17:harness-setup", "client end did not notice the kill within 4 s")
	}
	time.Sleep(interval / 4)
	sc.probeGap(0, 2)
	d := sc.closeManager()
	sc.setStat("close_ms", int64(d/time.Millisecond))
	if d > interval/2+300*time.Millisecond {
		sc.fail("C17:close-waits-for-rebuild-timer", fmt.Sprintf("SessionManager.Close took %v with a watcher in its %v rebuild wait", d, interval))
	}
	time.Sleep(2*interval + 200*time.Millisecond)
	if got := sc.accepted(sc.lis) - before; got != 0 {
		sc.fail("C17:session-created-after-close", fmt.Sprintf("%d sessions accepted by the server after SessionManager.Close", got))
	}
	sc.cleanup()
	return sc.result()
}

// sequential: goroutine census around one manager life cycle with a rebuild pending at Close
func v17Census(name string) v17Case {
	settle := func() int {
		best := runtime.NumGoroutine()
		for i := 0; i < 40; i++ {
			runtime.GC()
			time.Sleep(100 * time.Millisecond)
			g := runtime.NumGoroutine()
			if g < best {
				best = g
			} else if i > 8 {
				break
			}
		}
		return best
	}
	base := settle()
	sc, err := v17NewScn(name, 2, 300*time.Millisecond)
	if err != nil {
		return v17Case{ID: name, N: 2, Oracle: []string{"C17:harness-setup | " + err.Error()}, SkipModel: true}
	}
	sc.feat["goroutine-census"] = true
	sc.startSampler()
	sc.killServerSession(sc.lis, 1)
	time.Sleep(80 * time.Millisecond)
	sc.closeManager()
	sc.cleanup()
	dl := time.Now().Add(6 * time.Second)
	g := runtime.NumGoroutine()
	for time.Now().Before(dl) {
		runtime.GC()
		g = runtime.NumGoroutine()
		if g <= base {
			break
		}
		time.Sleep(100 * time.Millisecond)
	}
	sc.setStat("goroutines_base", int64(base))
	sc.setStat("goroutines_after", int64(g))
	if g > base {
		sc.fail("C17:goroutines-left-after-close", fmt.Sprintf("%d goroutines before the manager existed, %d six seconds after Close", base, g))
	}
	c := sc.result()
	return c
}

func TestVerif_C17(t *testing.T) {
	v17patch()
	out := vopenOut(t)
	defer out.close()
	seed := uint64(venvInt("VERIF_SEED", 1))
	rounds := venvInt("VERIF_N", 1)
	out.emit(map[string]interface{}{"id": "source-shape", "shape": v17ReadShape()})
	for r := 0; r < rounds; r++ {
		rng := newVrand(seed*1000 + uint64(r))
		iv := func(lo, hi int) time.Duration { return time.Duration(lo+rng.intn(hi-lo+1)) * time.Millisecond }
		tag := func(s string) string { return fmt.Sprintf("r%d_%s", r, s) }
		type job func() v17Case
		i1, i2, i3, i4, i5, i6 := iv(80, 200), iv(80, 160), iv(100, 200), iv(100, 200), iv(400, 600), iv(60, 120)
		v1 := rng.intn(2)
		ep := uint64(1 + rng.intn(1<<20))
		down := iv(300, 600)
		jobs := []job{
			func() v17Case { return v17KillOne(tag("killone"), 2, i1, v1, 1) },
			func() v17Case { return v17KillOne(tag("killtwice"), 1, i6, 0, 2) },
			func() v17Case { return v17ServerDown(tag("serverdown"), 2, i2, down) },
			func() v17Case { return v17HotRestart(tag("hotrestart"), 2, i3, ep) },
			func() v17Case { return v17HotRestart(tag("hotrestart_epoch0"), 2, i4, 0) },
			func() v17Case { return v17CloseDuringWait(tag("closewait"), 2, i5) },
			func() v17Case { return v17CloseWithParked(tag("closeparked"), 2, i3, ep+7) },
			func() v17Case { return v17CloseDuringHotRestart(tag("closehr"), 2, i4, ep+11) },
			func() v17Case { return v17CloseInFlight(tag("closeinflight"), i6, 500*time.Millisecond) },
			func() v17Case { return v17CloseRace(tag("closerace"), 2, i3, ep+21) },
			func() v17Case {
				return v17SwapDuringWait(tag("swapwait_inject_memfd"), 1, 400*time.Millisecond, ep+31, MemMapTypeMemFd, true)
			},
			func() v17Case {
				return v17SwapDuringWait(tag("swapwait_inject_file"), 1, 400*time.Millisecond, ep+32, MemMapTypeDevShmFile, true)
			},
			func() v17Case {
				return v17SwapDuringWait(tag("swapwait_real_memfd"), 4, 350*time.Millisecond, ep+33, MemMapTypeMemFd, false)
			},
			func() v17Case {
				return v17SwapDuringWait(tag("swapwait_real_file"), 3, 350*time.Millisecond, ep+34, MemMapTypeDevShmFile, false)
			},
			func() v17Case { return v17StoreRace(tag("storerace"), 150*time.Millisecond, ep+41) },
		}
		res := make([]v17Case, len(jobs))
		var wg sync.WaitGroup
		for i := range jobs {
			wg.Add(1)
			go func(i int) {
				defer wg.Done()
				defer func() {
					if p := recover(); p != nil {
						res[i] = v17Case{ID: fmt.Sprintf("job%d", i), Oracle: []string{fmt.Sprintf("C17:harness-panic | %v", p)}, SkipModel: true}
					}
				}()
				res[i] = jobs[i]()
			}(i)
			time.Sleep(15 * time.Millisecond)
		}
		wg.Wait()
		for _, c := range res {
			out.emit(c)
		}
		if r == 0 {
			out.emit(v17Census(tag("census")))
		}
	}
}
