//go:build verif

package shmipc

// C14 correspondence + oracle harness (mechanism T).
//
//   trace   : four real sessions sharing one buffer manager (two client/server pairs), closed one
//             after the other (Close twice, concurrently), observed at quiescent points: reference
//             counts in the process-wide table, table membership, released sessions -> model segments
//   killed  : the peer is a CHILD PROCESS that is SIGKILLed after k round trips / while writers are
//             flushing / while readers are pending; the surviving session must close, every pending
//             and later call must fail, close callbacks must arrive, nothing may hang or be left
//   severed : both ends here, the socket is shut down at the same kinds of point
//   race    : (in a child process, it may crash) Close from several goroutines while writers flush
//   later   : (in a child process) calls on a stream after both ends are closed and cleaned up
//
// Every case is one JSON line on VERIF_OUT with observables and the oracle verdicts.

import (
	"bufio"
	"encoding/json"
	"fmt"
	"go/ast"
	"go/parser"
	"go/token"
	"io"
	"net"
	"os"
	"os/exec"
	"path/filepath"
	"runtime"
	"strings"
	"sync"
	"sync/atomic"
	"syscall"
	"testing"
	"time"
)

type c14Seg struct {
	Labels []string `json:"labels"`
	Obs    []int    `json:"obs"`
}

type c14Case struct {
	ID      int            `json:"id"`
	Kind    string         `json:"kind"`
	Name    string         `json:"name"`
	Segs    []c14Seg       `json:"segs,omitempty"`
	Closed  bool           `json:"closed"`
	Pending map[string]int `json:"pending,omitempty"` // error classes of the calls that were pending
	Later   map[string]int `json:"later,omitempty"`   // error classes of calls made afterwards
	Cbs     map[string]int `json:"cbs,omitempty"`
	Hung    int            `json:"hung"`
	Residue []string       `json:"residue"`
	Child   string         `json:"child,omitempty"`
	Err     string         `json:"err"`
	Oracle  []string       `json:"oracle"`
	Feat    []string       `json:"feat"`
	WaitMs  int64          `json:"wait_ms"`
}

var c14Scratch string

func c14Prefix(id int) string { return fmt.Sprintf("/dev/shm/vf14_%d_%d", os.Getpid(), id) }

func c14Conf(prefix, queue string, mt MemMapType) *Config {
	c := DefaultConfig()
	c.ShareMemoryPathPrefix = prefix
	c.QueuePath = queue
	c.MemMapType = mt
	c.InitializeTimeout = 8 * time.Second
	c.ShareMemoryBufferCap = 1 << 20
	c.QueueCap = 256
	c.LogOutput = io.Discard
	return c
}

func c14Pair(id int, tag string) (cli, srv net.Conn, err error) {
	p := filepath.Join(c14Scratch, fmt.Sprintf("s%d%s.sock", id, tag))
	os.Remove(p)
	ln, err := net.Listen("unix", p)
	if err != nil {
		return nil, nil, err
	}
	defer os.Remove(p)
	defer ln.Close()
	ch := make(chan net.Conn, 1)
	go func() { c, _ := ln.Accept(); ch <- c }()
	cli, err = net.Dial("unix", p)
	if err != nil {
		return nil, nil, err
	}
	select {
	case srv = <-ch:
	case <-time.After(5 * time.Second):
	}
	if srv == nil {
		return nil, nil, fmt.Errorf("accept failed")
	}
	return cli, srv, nil
}

// both real ends in this process
func c14Sessions(id int, tag string, conf *Config) (cs, ss *Session, err error) {
	cli, srv, err := c14Pair(id, tag)
	if err != nil {
		return nil, nil, err
	}
	var serr error
	done := make(chan struct{})
	go func() {
		sc := DefaultConfig()
		sc.LogOutput = io.Discard
		sc.InitializeTimeout = 8 * time.Second
		ss, serr = Server(srv, sc)
		close(done)
	}()
	cs, err = newSession(conf, cli, true)
	<-done
	if err == nil {
		err = serr
	}
	return
}

func c14FdLinks(match string) int {
	n := 0
	ents, _ := os.ReadDir("/proc/self/fd")
	for _, e := range ents {
		if l, err := os.Readlink("/proc/self/fd/" + e.Name()); err == nil && strings.Contains(l, match) {
			n++
		}
	}
	return n
}

func c14Residue(id int, inodes []string) []string {
	var r []string
	name := fmt.Sprintf("vf14_%d_%d", os.Getpid(), id)
	b, _ := os.ReadFile("/proc/self/maps")
	if n := strings.Count(string(b), name+"_"); n > 0 {
		r = append(r, fmt.Sprintf("maps:%d", n))
	}
	if m, _ := filepath.Glob(c14Prefix(id) + "_*"); len(m) > 0 {
		r = append(r, fmt.Sprintf("files:%d", len(m)))
	}
	if n := c14FdLinks(name + "_"); n > 0 {
		r = append(r, fmt.Sprintf("memfd-fds:%d", n))
	}
	for _, ino := range inodes {
		if ino != "" {
			if n := c14FdLinks(ino); n > 0 {
				r = append(r, fmt.Sprintf("socket-fds:%d", n))
			}
		}
	}
	return r
}

func c14WaitClean(id int, inodes []string, d time.Duration) []string {
	end := time.Now().Add(d)
	var r []string
	for {
		r = c14Residue(id, inodes)
		if len(r) == 0 || time.Now().After(end) {
			return r
		}
		time.Sleep(100 * time.Millisecond)
	}
}

func c14SockInodeOfFd(fd int) string {
	l, _ := os.Readlink(fmt.Sprintf("/proc/self/fd/%d", fd))
	return l
}

func c14ErrClass(err error) string {
	switch {
	case err == nil:
		return "nil"
	case err == ErrStreamClosed:
		return "stream-closed"
	case err == ErrEndOfStream:
		return "end-of-stream"
	case err == ErrSessionShutdown:
		return "session-shutdown"
	case err == ErrTimeout:
		return "timeout"
	case strings.Contains(err.Error(), "reset by peer"), strings.Contains(err.Error(), "broken pipe"), strings.Contains(err.Error(), "EOF"):
		return "connection-error"
	}
	return "other-error"
}

type c14Cb struct {
	data, local, remote int32
}

func (c *c14Cb) OnData(r BufferReader) {
	atomic.AddInt32(&c.data, 1)
	r.ReadBytes(r.Len())
	r.ReleasePreviousRead()
}
func (c *c14Cb) OnLocalClose()  { atomic.AddInt32(&c.local, 1) }
func (c *c14Cb) OnRemoteClose() { atomic.AddInt32(&c.remote, 1) }

// ---- trace --------------------------------------------------------------------------------------
func c14TableObs(paths []string, sessions []*Session) []int {
	obs := make([]int, 0, 5)
	bufferManagers.Lock()
	for _, p := range paths {
		if bm, ok := bufferManagers.bms[p]; ok {
			obs = append(obs, int(atomic.LoadInt32(&bm.refCount)))
		} else {
			obs = append(obs, 0)
		}
	}
	for _, p := range paths {
		if _, ok := bufferManagers.bms[p]; ok {
			obs = append(obs, 1)
		} else {
			obs = append(obs, 0)
		}
	}
	bufferManagers.Unlock()
	rel := 0
	for _, s := range sessions {
		s.shutdownLock.Lock()
		if s.IsClosed() && s.queueManager == nil {
			rel++
		}
		s.shutdownLock.Unlock()
	}
	return append(obs, rel)
}

func c14RunTrace(id int, mt MemMapType) c14Case {
	c := c14Case{ID: id, Kind: "trace", Name: fmt.Sprintf("trace-mt%d", mt)}
	pa, pb := c14Prefix(id)+"_A", c14Prefix(id)+"_B"
	paths := []string{pa + bufferPathSuffix, pb + bufferPathSuffix}
	var all []*Session
	seg := func(labels ...string) {
		c.Segs = append(c.Segs, c14Seg{Labels: labels, Obs: c14TableObs(paths, all)})
	}
	quiesce := func() { time.Sleep(2600 * time.Millisecond) }
	open := func(prefix, q, tag string) (*Session, *Session) {
		cs, ss, err := c14Sessions(id, tag, c14Conf(prefix, c14Prefix(id)+q, mt))
		if err != nil {
			c.Kind, c.Err = "broken", "harness: "+err.Error()
			return nil, nil
		}
		all = append(all, cs, ss)
		return cs, ss
	}
	// sessions 0/1 and 2/3 share manager A, sessions 4/5 use manager B
	c0, _ := open(pa, "_q1", "a")
	if c0 == nil {
		return c
	}
	seg("open 1 100", "open 1 1100")
	c2, s3 := open(pa, "_q2", "b")
	if c2 == nil {
		return c
	}
	seg("open 1 101", "open 1 1101")
	c4, _ := open(pb, "_q3", "c")
	if c4 == nil {
		return c
	}
	seg("open 2 102", "open 2 1102")
	// a sibling establishment on manager A whose handshake FAILS (memfd: the peer stalls after the version
	// exchange; file: the peer is already gone): it must give back exactly the reference it took
	{
		cli, srv, err := c14Pair(id, "f")
		if err != nil {
			c.Kind, c.Err = "broken", "harness: "+err.Error()
			return c
		}
		fc := c14Conf(pa, c14Prefix(id)+"_qf", mt)
		fc.InitializeTimeout = 500 * time.Millisecond
		if mt == MemMapTypeDevShmFile {
			srv.Close()
			time.Sleep(100 * time.Millisecond)
		} else {
			go func() {
				buf := make([]byte, 64)
				srv.SetReadDeadline(time.Now().Add(2 * time.Second))
				srv.Read(buf)
				h := header(make([]byte, headerSize))
				h.encode(headerSize, maxSupportProtoVersion, typeExchangeProtoVersion)
				srv.Write(h)
				time.Sleep(1500 * time.Millisecond)
				srv.Close()
			}()
		}
		if fs, err := newSession(fc, cli, true); err == nil {
			fs.Close()
			c.Kind, c.Err = "broken", "harness: the sibling establishment did not fail"
			return c
		}
		cli.Close()
		seg("openfail 1")
	}
	// Close twice, concurrently: one procedure; the peer reacts to the closed connection
	var wg sync.WaitGroup
	for i := 0; i < 4; i++ {
		wg.Add(1)
		go func() { defer wg.Done(); c0.Close() }()
	}
	wg.Wait()
	quiesce()
	seg("close 0", "close 0", "close 0", "close 0", "lambda 0", "lambda 0", "remote 1", "lambda 1")
	// the server side of the second pair is closed by its owner, then again
	s3.Close()
	s3.Close()
	quiesce()
	seg("close 3", "close 3", "lambda 3", "remote 2", "lambda 2")
	c4.Close()
	quiesce()
	seg("close 4", "lambda 4", "remote 5", "lambda 5")
	c.Residue = c14WaitClean(id, nil, time.Second)
	for _, r := range c.Residue {
		c.Oracle = append(c.Oracle, "C14:closed-sessions-leave-"+strings.SplitN(r, ":", 2)[0])
	}
	for _, s := range all {
		if !s.IsClosed() {
			c.Oracle = append(c.Oracle, "C14:session-not-closed-after-peer-close")
			break
		}
	}
	c.Feat = append(c.Feat, "shared-manager", "concurrent-double-close")
	return c
}

// ---- the peer in a child process -----------------------------------------------------------------
func c14ChildServer() {
	ln, err := net.Listen("unix", os.Getenv("VERIF_C14_SOCK"))
	if err != nil {
		fmt.Println("ERR " + err.Error())
		return
	}
	fmt.Println("READY")
	conn, err := ln.Accept()
	if err != nil {
		fmt.Println("ERR " + err.Error())
		return
	}
	conf := DefaultConfig()
	conf.LogOutput = io.Discard
	conf.InitializeTimeout = 8 * time.Second
	s, err := Server(conn, conf)
	if err != nil {
		fmt.Println("ERR " + err.Error())
		return
	}
	fmt.Println("OK")
	for {
		st, err := s.AcceptStream()
		if err != nil {
			return
		}
		go func() {
			for {
				b, err := st.BufferReader().ReadBytes(4)
				if err != nil {
					return
				}
				n := int(b[0]) | int(b[1])<<8
				p, err := st.BufferReader().ReadBytes(n)
				if err != nil {
					return
				}
				if b[2] == 1 { // echo
					st.BufferWriter().WriteBytes(b)
					st.BufferWriter().WriteBytes(p)
					st.Flush(false)
				}
				st.BufferReader().ReleasePreviousRead()
			}
		}()
	}
}

func c14Msg(n int, echo bool) []byte {
	m := make([]byte, 4+n)
	m[0], m[1] = byte(n), byte(n>>8)
	if echo {
		m[2] = 1
	}
	for i := 0; i < n; i++ {
		m[4+i] = byte(i)
	}
	return m
}

type c14Load struct {
	sess     *Session
	streams  []*Stream
	cb       *c14Cb
	cbStream *Stream
	wg       sync.WaitGroup
	mu       sync.Mutex
	pending  map[string]int
	stop     int32
}

// k echo round trips on every stream; then readers pending on half of them, writers flushing on the others
func c14StartLoad(s *Session, nstreams, k int, writers, readers bool) (*c14Load, error) {
	l := &c14Load{sess: s, pending: map[string]int{}, cb: &c14Cb{}}
	for i := 0; i < nstreams; i++ {
		st, err := s.OpenStream()
		if err != nil {
			return nil, err
		}
		l.streams = append(l.streams, st)
	}
	for r := 0; r < k; r++ {
		for _, st := range l.streams {
			st.SetDeadline(time.Now().Add(5 * time.Second))
			if _, err := st.BufferWriter().WriteBytes(c14Msg(64, true)); err != nil {
				return nil, err
			}
			if err := st.Flush(false); err != nil {
				return nil, err
			}
			if _, err := st.BufferReader().ReadBytes(68); err != nil {
				return nil, fmt.Errorf("round trip: %v", err)
			}
			st.BufferReader().ReleasePreviousRead()
			st.SetDeadline(time.Time{})
		}
	}
	// one stream in callback mode
	cbs, err := s.OpenStream()
	if err != nil {
		return nil, err
	}
	cbs.SetCallbacks(l.cb)
	cbs.BufferWriter().WriteBytes(c14Msg(16, true))
	cbs.Flush(false)
	l.cbStream = cbs
	note := func(e error) {
		l.mu.Lock()
		l.pending[c14ErrClass(e)]++
		l.mu.Unlock()
	}
	for i, st := range l.streams {
		st := st
		if readers && i%2 == 0 {
			l.wg.Add(1)
			go func() {
				defer l.wg.Done()
				_, err := st.BufferReader().ReadBytes(1 << 20) // never satisfied: pending until the session dies
				note(err)
			}()
		} else if writers {
			l.wg.Add(1)
			go func() {
				defer l.wg.Done()
				for n := 0; atomic.LoadInt32(&l.stop) == 0; n++ {
					if _, err := st.BufferWriter().WriteBytes(c14Msg(200, false)); err != nil {
						note(err)
						return
					}
					if err := st.Flush(false); err != nil {
						note(err)
						return
					}
					if n%64 == 0 {
						runtime.Gosched()
					}
				}
				note(nil)
			}()
		}
	}
	return l, nil
}

// after the session died: every pending call must have returned an error, later calls must fail
func (l *c14Load) judge(c *c14Case, bound time.Duration) {
	t0 := time.Now()
	for !l.sess.IsClosed() && time.Since(t0) < bound {
		time.Sleep(20 * time.Millisecond)
	}
	c.WaitMs = int64(time.Since(t0) / time.Millisecond)
	c.Closed = l.sess.IsClosed()
	if !c.Closed {
		c.Oracle = append(c.Oracle, "C14:survivor-not-closed-after-peer-death")
	}
	done := make(chan struct{})
	go func() { l.wg.Wait(); close(done) }()
	select {
	case <-done:
	case <-time.After(bound):
		c.Hung = 1
		c.Oracle = append(c.Oracle, "C14:pending-call-hangs-after-session-closed")
	}
	atomic.StoreInt32(&l.stop, 1)
	l.mu.Lock()
	c.Pending = map[string]int{}
	for k, v := range l.pending {
		c.Pending[k] = v
		if k == "nil" || k == "timeout" {
			c.Oracle = append(c.Oracle, "C14:pending-call-does-not-fail-after-session-closed")
		}
	}
	l.mu.Unlock()
	// let the dispatcher run the posted cleanup
	time.Sleep(2600 * time.Millisecond)
	c.Later = map[string]int{}
	if _, err := l.sess.OpenStream(); err == nil {
		c.Later["open:nil"]++
		c.Oracle = append(c.Oracle, "C14:later-call-succeeds-on-closed-session")
	} else {
		c.Later["open:"+c14ErrClass(err)]++
	}
	for _, st := range l.streams {
		st.SetReadDeadline(time.Now().Add(2 * time.Second))
		_, err := st.BufferReader().ReadBytes(1 << 20)
		c.Later["read:"+c14ErrClass(err)]++
		if err == nil || err == ErrTimeout {
			c.Oracle = append(c.Oracle, "C14:later-call-succeeds-on-closed-session")
		}
	}
	c.Cbs = map[string]int{"data": int(atomic.LoadInt32(&l.cb.data)), "local": int(atomic.LoadInt32(&l.cb.local)), "remote": int(atomic.LoadInt32(&l.cb.remote))}
	if c.Cbs["local"]+c.Cbs["remote"] != 1 {
		c.Oracle = append(c.Oracle, "C14:close-callback-count-not-one")
	}
}

// mode 0: the peer is killed as it is.
// mode 1: "peer hung with unread bytes": the peer is SIGSTOPped, the survivor flushes messages (polling
//
//	events now sit unread in the peer's socket), then the peer is SIGKILLed — the kernel closes its
//	socket with unread data and the survivor's read(2) returns ECONNRESET instead of 0.
//
// mode 2: the survivor has unread incoming bytes when the peer dies: the dispatcher is held by a gate
//
//	lambda, the peer answers (its events arrive unread) and is killed, then the gate opens.
func c14RunKilled(id int, name string, k int, writers, readers bool, mt MemMapType, mode int) c14Case {
	c := c14Case{ID: id, Kind: "killed", Name: name}
	sock := filepath.Join(c14Scratch, fmt.Sprintf("k%d.sock", id))
	os.Remove(sock)
	cmd := exec.Command(os.Args[0], "-test.run", "^TestVerif_C14$")
	cmd.Env = append(os.Environ(), "VERIF_C14_CHILD=server", "VERIF_C14_SOCK="+sock)
	stdout, _ := cmd.StdoutPipe()
	if err := cmd.Start(); err != nil {
		c.Kind, c.Err = "broken", "harness: "+err.Error()
		return c
	}
	defer func() { cmd.Process.Kill(); cmd.Wait(); os.Remove(sock) }()
	rd := bufio.NewReader(stdout)
	lines := make(chan string, 64)
	go func() {
		for {
			l, err := rd.ReadString('\n')
			if l != "" {
				lines <- strings.TrimSpace(l)
			}
			if err != nil {
				return
			}
		}
	}()
	line := func() string { // the next protocol line of the child (other output of the test binary is skipped)
		for {
			select {
			case l := <-lines:
				if l == "READY" || l == "OK" || strings.HasPrefix(l, "ERR") {
					return l
				}
			case <-time.After(20 * time.Second):
				return "timeout"
			}
		}
	}
	if l := line(); l != "READY" {
		c.Kind, c.Err = "broken", "harness: child said "+l
		return c
	}
	conn, err := net.Dial("unix", sock)
	if err != nil {
		c.Kind, c.Err = "broken", "harness: "+err.Error()
		return c
	}
	cs, err := newSession(c14Conf(c14Prefix(id), c14Prefix(id)+"_queue", mt), conn, true)
	if err != nil {
		c.Kind, c.Err = "broken", "harness: client: "+err.Error()
		return c
	}
	inode := c14SockInodeOfFd(cs.connFd)
	if l := line(); l != "OK" {
		c.Kind, c.Err = "broken", "harness: child said "+l
		return c
	}
	load, err := c14StartLoad(cs, 4, k, writers, readers)
	if err != nil {
		c.Kind, c.Err = "broken", "harness: load: "+err.Error()
		cs.Close()
		return c
	}
	time.Sleep(50 * time.Millisecond)
	switch mode {
	case 1:
		cmd.Process.Signal(syscall.SIGSTOP)
		time.Sleep(100 * time.Millisecond)
		before := atomic.LoadUint64(&cs.stats.sendPollingEventCount)
		st := load.streams[1] // no reader is parked on the odd streams
		for i := 0; i < 3; i++ {
			st.BufferWriter().WriteBytes(c14Msg(48, false))
			st.Flush(false)
		}
		if atomic.LoadUint64(&cs.stats.sendPollingEventCount) == before {
			// the peer's consumer was marked working: put a wake-up event on the socket explicitly
			cs.waitForSend(nil, pollingEventWithVersion[cs.communicationVersion])
			c.Feat = append(c.Feat, "explicit-polling-event")
		}
		time.Sleep(50 * time.Millisecond)
		c.Feat = append(c.Feat, "peer-hung-with-unread-bytes")
		cmd.Process.Signal(syscall.SIGKILL)
	case 2:
		gate := make(chan struct{})
		defaultDispatcher.post(func() { <-gate })
		time.Sleep(1200 * time.Millisecond) // the dispatcher is inside the gate lambda by now
		st := load.streams[1]
		for i := 0; i < 3; i++ {
			st.BufferWriter().WriteBytes(c14Msg(48, true)) // the peer echoes: its events arrive unread
			st.Flush(false)
		}
		time.Sleep(300 * time.Millisecond)
		cmd.Process.Signal(syscall.SIGKILL)
		time.Sleep(100 * time.Millisecond)
		c.Feat = append(c.Feat, "survivor-has-unread-incoming-bytes")
		close(gate)
	default:
		cmd.Process.Signal(syscall.SIGKILL)
	}
	load.judge(&c, 8*time.Second)
	c.Residue = c14WaitClean(id, []string{inode}, 2*time.Second)
	for _, r := range c.Residue {
		c.Oracle = append(c.Oracle, "C14:closed-sessions-leave-"+strings.SplitN(r, ":", 2)[0])
	}
	c.Feat = append(c.Feat, "peer-sigkill")
	if writers {
		c.Feat = append(c.Feat, "mid-flush")
	}
	if readers {
		c.Feat = append(c.Feat, "mid-read")
	}
	return c
}

func c14RunSevered(id int, name string, k int, writers, readers bool, mt MemMapType) c14Case {
	c := c14Case{ID: id, Kind: "severed", Name: name}
	cs, ss, err := c14Sessions(id, "v", c14Conf(c14Prefix(id), c14Prefix(id)+"_queue", mt))
	if err != nil {
		c.Kind, c.Err = "broken", "harness: "+err.Error()
		return c
	}
	inodes := []string{c14SockInodeOfFd(cs.connFd), c14SockInodeOfFd(ss.connFd)}
	// server: echo
	go func() {
		for {
			st, err := ss.AcceptStream()
			if err != nil {
				return
			}
			go func() {
				for {
					b, err := st.BufferReader().ReadBytes(4)
					if err != nil {
						return
					}
					n := int(b[0]) | int(b[1])<<8
					p, err := st.BufferReader().ReadBytes(n)
					if err != nil {
						return
					}
					if b[2] == 1 {
						st.BufferWriter().WriteBytes(b)
						st.BufferWriter().WriteBytes(p)
						st.Flush(false)
					}
					st.BufferReader().ReleasePreviousRead()
				}
			}()
		}
	}()
	load, err := c14StartLoad(cs, 4, k, writers, readers)
	if err != nil {
		c.Kind, c.Err = "broken", "harness: load: "+err.Error()
		cs.Close()
		ss.Close()
		return c
	}
	time.Sleep(50 * time.Millisecond)
	syscall.Shutdown(ss.connFd, syscall.SHUT_RDWR)
	load.judge(&c, 8*time.Second)
	if !ss.IsClosed() {
		c.Oracle = append(c.Oracle, "C14:survivor-not-closed-after-peer-death")
	}
	c.Residue = c14WaitClean(id, inodes, 2*time.Second)
	for _, r := range c.Residue {
		c.Oracle = append(c.Oracle, "C14:closed-sessions-leave-"+strings.SplitN(r, ":", 2)[0])
	}
	c.Feat = append(c.Feat, "socket-shutdown")
	if writers {
		c.Feat = append(c.Feat, "mid-flush")
	}
	if readers {
		c.Feat = append(c.Feat, "mid-read")
	}
	return c
}

// ---- Close releases every pending call at once, before the dispatcher's cleanup runs -------------
// The dispatcher is held by a gate lambda posted BEFORE Close (lambdas run in order), so the posted
// cleanup cannot run while the checks are made: whatever is released by then was released by
// Session.Close itself (safeCloseNotify on every stream, shutdownCh).  Afterwards the cleanup must
// unmap the queue: the queue's mapping and file / memfd are looked for by name.
func c14RunSyncClose(id int, mt MemMapType) c14Case {
	c := c14Case{ID: id, Kind: "sync-close", Name: fmt.Sprintf("close-releases-pending-before-cleanup-mt%d", mt)}
	cs, ss, err := c14Sessions(id, "y", c14Conf(c14Prefix(id), c14Prefix(id)+"_queue", mt))
	if err != nil {
		c.Kind, c.Err = "broken", "harness: "+err.Error()
		return c
	}
	var streams []*Stream
	var wg sync.WaitGroup
	results := make(chan error, 8)
	for i := 0; i < 4; i++ {
		st, err := cs.OpenStream()
		if err != nil {
			c.Kind, c.Err = "broken", "harness: "+err.Error()
			return c
		}
		streams = append(streams, st)
		wg.Add(1)
		go func() {
			defer wg.Done()
			_, err := st.BufferReader().ReadBytes(1 << 20) // parked until the session dies
			results <- err
		}()
	}
	acc := make(chan error, 1)
	go func() { _, err := ss.AcceptStream(); acc <- err }() // parked on the server: released when ss closes
	time.Sleep(100 * time.Millisecond)
	qname := fmt.Sprintf("vf14_%d_%d_queue", os.Getpid(), id)
	maps, _ := os.ReadFile("/proc/self/maps")
	if strings.Count(string(maps), qname) == 0 {
		c.Oracle = append(c.Oracle, "harness: the queue mapping is not visible in /proc/self/maps before Close")
	}
	gate := make(chan struct{})
	defaultDispatcher.post(func() { <-gate })
	t0 := time.Now()
	cs.Close()
	released := make(chan struct{})
	go func() { wg.Wait(); close(released) }()
	select {
	case <-released:
		c.WaitMs = int64(time.Since(t0) / time.Millisecond)
	case <-time.After(1500 * time.Millisecond):
		c.Hung = 1
		c.Oracle = append(c.Oracle, "C14:close-does-not-release-pending-calls")
	}
	open := 0
	for _, st := range streams {
		select {
		case <-st.closeNotifyCh:
		default:
			open++
		}
	}
	if open > 0 {
		c.Oracle = append(c.Oracle, "C14:close-does-not-release-pending-calls")
	}
	select {
	case <-cs.CloseChan():
	default:
		c.Oracle = append(c.Oracle, "C14:close-does-not-release-pending-calls")
	}
	c.Pending = map[string]int{}
	for len(results) > 0 {
		e := <-results
		c.Pending[c14ErrClass(e)]++
		if e == nil {
			c.Oracle = append(c.Oracle, "C14:pending-call-does-not-fail-after-session-closed")
		}
	}
	// the cleanup has not run: the queue is still mapped (this is what makes the check above meaningful)
	cs.shutdownLock.Lock()
	if cs.queueManager == nil {
		c.Feat = append(c.Feat, "cleanup-ran-despite-gate")
	}
	cs.shutdownLock.Unlock()
	close(gate)
	select {
	case <-acc:
	case <-time.After(5 * time.Second):
		c.Oracle = append(c.Oracle, "C14:pending-call-hangs-after-session-closed")
	}
	time.Sleep(2600 * time.Millisecond)
	c.Closed = cs.IsClosed() && ss.IsClosed()
	if !c.Closed {
		c.Oracle = append(c.Oracle, "C14:session-not-closed-after-peer-close")
	}
	// census of the queue by name: mapping, file, memfd descriptor
	maps, _ = os.ReadFile("/proc/self/maps")
	if n := strings.Count(string(maps), qname); n > 0 {
		c.Residue = append(c.Residue, fmt.Sprintf("queue-maps:%d", n))
		c.Oracle = append(c.Oracle, "C14:cleanup-leaves-queue-mapped")
	}
	if _, err := os.Stat(c14Prefix(id) + "_queue"); err == nil {
		c.Residue = append(c.Residue, "queue-file")
		c.Oracle = append(c.Oracle, "C14:cleanup-leaves-queue-mapped")
	}
	if n := c14FdLinks(qname); n > 0 {
		c.Residue = append(c.Residue, fmt.Sprintf("queue-memfd:%d", n))
		c.Oracle = append(c.Oracle, "C14:cleanup-leaves-queue-mapped")
	}
	for _, r := range c14WaitClean(id, nil, time.Second) {
		c.Residue = append(c.Residue, r)
		c.Oracle = append(c.Oracle, "C14:closed-sessions-leave-"+strings.SplitN(r, ":", 2)[0])
	}
	c.Feat = append(c.Feat, "dispatcher-gated", "parked-readers")
	return c
}

// ---- a dead session's slices in the SHARED buffer manager -----------------------------------------
// Two session pairs on one buffer path share one manager (reference counted, alive as long as any of
// them).  Pair B stays alive and holds a little; pair A's streams hold unread received data (sync and
// callback mode) and written-but-unflushed data when A's connection is severed.  After A's cleanup the
// manager's free lists must be back where they were before A took anything — the manager itself lives
// on.  Repeated with fresh pairs to make a drain visible.
type c14NoRead struct{}

func (c14NoRead) OnData(r BufferReader) {}
func (c14NoRead) OnLocalClose()         {}
func (c14NoRead) OnRemoteClose()        {}

func c14FreeCounts(path string) ([]int, bool) {
	bufferManagers.Lock()
	bm, ok := bufferManagers.bms[path]
	bufferManagers.Unlock()
	if !ok {
		return nil, false
	}
	r := make([]int, len(bm.lists))
	for i, l := range bm.lists {
		r[i] = int(atomic.LoadInt32(l.size))
	}
	return r, true
}

func c14SumInts(a []int) int {
	n := 0
	for _, x := range a {
		n += x
	}
	return n
}

func c14RunSiblingSlices(id int, mt MemMapType) c14Case {
	c := c14Case{ID: id, Kind: "slices", Name: fmt.Sprintf("dead-session-returns-slices-to-shared-manager-mt%d", mt), Later: map[string]int{}}
	prefix := c14Prefix(id)
	bufPath := prefix + bufferPathSuffix
	mk := func(tag string) (*Session, *Session, error) {
		conf := c14Conf(prefix, prefix+"_q"+tag, mt)
		conf.ShareMemoryBufferCap = 8 << 20
		return c14Sessions(id, tag, conf)
	}
	fill := func(n int, b byte) []byte {
		p := make([]byte, n)
		for i := range p {
			p[i] = b
		}
		return p
	}
	csB, ssB, err := mk("b")
	if err != nil {
		c.Kind, c.Err = "broken", "harness: "+err.Error()
		return c
	}
	stB, _ := csB.OpenStream()
	stB.BufferWriter().WriteBytes(fill(20<<10, 0xB0)) // the live sibling's own holding (unflushed)
	const rounds = 3
	for k := 1; k <= rounds; k++ {
		csA, ssA, err := mk(fmt.Sprintf("a%d", k))
		if err != nil {
			c.Kind, c.Err = "broken", "harness: "+err.Error()
			return c
		}
		go func() { // the server end accepts and never reads; the second stream is in callback mode
			n := 0
			for {
				st, err := ssA.AcceptStream()
				if err != nil {
					return
				}
				n++
				if n == 2 {
					st.SetCallbacks(c14NoRead{})
				}
			}
		}()
		before, ok := c14FreeCounts(bufPath)
		if !ok {
			c.Kind, c.Err = "broken", "harness: the shared buffer manager is not registered"
			return c
		}
		st1, _ := csA.OpenStream()
		st1.BufferWriter().WriteBytes(fill(50<<10, 1)) // written, never flushed
		st2, _ := csA.OpenStream()
		st2.BufferWriter().WriteBytes(fill(200<<10, 2))
		st2.Flush(false) // unread on the server end (sync mode)
		time.Sleep(50 * time.Millisecond)
		st3, _ := csA.OpenStream()
		st3.BufferWriter().WriteBytes(fill(64<<10, 3))
		st3.Flush(false) // unread on the server end (callback mode)
		time.Sleep(250 * time.Millisecond)
		held, _ := c14FreeCounts(bufPath)
		c.Later[fmt.Sprintf("round%d:slices-held-by-A", k)] = c14SumInts(before) - c14SumInts(held)
		if c14SumInts(before)-c14SumInts(held) <= 0 {
			c.Oracle = append(c.Oracle, "harness: session A holds no slices before the break")
		}
		syscall.Shutdown(ssA.connFd, syscall.SHUT_RDWR)
		t0 := time.Now()
		for (!csA.IsClosed() || !ssA.IsClosed()) && time.Since(t0) < 8*time.Second {
			time.Sleep(20 * time.Millisecond)
		}
		if !csA.IsClosed() || !ssA.IsClosed() {
			c.Oracle = append(c.Oracle, "C14:survivor-not-closed-after-peer-death")
		}
		time.Sleep(2600 * time.Millisecond)
		after, ok := c14FreeCounts(bufPath)
		if !ok {
			c.Oracle = append(c.Oracle, "C14:shared-buffer-manager-gone-while-sibling-alive")
			return c
		}
		missing := c14SumInts(before) - c14SumInts(after)
		c.Later[fmt.Sprintf("round%d:slices-missing-after-cleanup", k)] = missing
		for i := range before {
			if i < len(after) && after[i] != before[i] {
				c.Oracle = append(c.Oracle, "C14:dead-session-keeps-shared-buffer-slices")
				break
			}
		}
	}
	// the sibling is untouched: still open, its unflushed data still there, and it can still allocate
	if csB.IsClosed() || ssB.IsClosed() {
		c.Oracle = append(c.Oracle, "C14:sibling-session-closed-by-another-sessions-death")
	}
	if stB.BufferWriter().Len() != 20<<10 {
		c.Oracle = append(c.Oracle, "C14:sibling-session-lost-its-data")
	}
	if _, err := stB.BufferWriter().WriteBytes(fill(100<<10, 0xB1)); err != nil || csB.stats.allocShmErrorCount != 0 {
		c.Oracle = append(c.Oracle, "C14:sibling-cannot-allocate-after-other-sessions-died")
	}
	csB.Close()
	ssB.Close()
	c.Residue = c14WaitClean(id, nil, 4*time.Second)
	for _, r := range c.Residue {
		c.Oracle = append(c.Oracle, "C14:closed-sessions-leave-"+strings.SplitN(r, ":", 2)[0])
	}
	c.Feat = append(c.Feat, "shared-manager", "unread-sync", "unread-callback", "unflushed", "repeated-breaks")
	return c
}

// ---- Flushes parked in the queue-full retry when the session dies ----------------------------------
// Session A's peer is a raw socket that completes the handshake and then never reads: A's send queue
// fills up and further Flushes wait in their 10 x 10 ms retry loop with the outgoing chain still in the
// stream's sendBuf.  Then A is closed locally, or its peer dies.  Session.Close / exitErr notify every
// stream first and recycle later (posted cleanup): every exit of Flush — the close-notified one too —
// must give the chain back, or nobody does.  The sibling pair B keeps the shared manager alive; its free
// lists are counted before the Flushes park and after A's cleanup.
func c14RawServerHandshake(srv *net.UnixConn, mt MemMapType) error {
	if mt == MemMapTypeDevShmFile {
		return nil // protocol 2: the client announces its memory and expects nothing
	}
	rd := func(n int) ([]byte, error) {
		b := make([]byte, n)
		srv.SetReadDeadline(time.Now().Add(8 * time.Second))
		_, err := io.ReadFull(srv, b)
		return b, err
	}
	wr := func(t eventType) error {
		h := header(make([]byte, headerSize))
		h.encode(headerSize, maxSupportProtoVersion, t)
		_, err := srv.Write(h)
		return err
	}
	if _, err := rd(headerSize); err != nil {
		return err
	}
	if err := wr(typeExchangeProtoVersion); err != nil {
		return err
	}
	hb, err := rd(headerSize)
	if err != nil {
		return err
	}
	if _, err := rd(int(header(hb).Length()) - headerSize); err != nil {
		return err
	}
	if err := wr(typeAckReadyRecvFD); err != nil {
		return err
	}
	buf, oob := make([]byte, 16), make([]byte, 256)
	srv.SetReadDeadline(time.Now().Add(8 * time.Second))
	_, oobn, _, _, err := srv.ReadMsgUnix(buf, oob)
	if err != nil {
		return err
	}
	if msgs, e := syscall.ParseSocketControlMessage(oob[:oobn]); e == nil {
		for i := range msgs {
			if fds, e := syscall.ParseUnixRights(&msgs[i]); e == nil {
				for _, fd := range fds {
					syscall.Close(fd)
				}
			}
		}
	}
	return wr(typeAckShareMemory)
}

func c14RunParkedFlush(id int, mt MemMapType, peerDies bool) c14Case {
	how := "local-close"
	if peerDies {
		how = "peer-death"
	}
	c := c14Case{ID: id, Kind: "slices", Name: fmt.Sprintf("flush-parked-in-queue-full-retry-at-%s-mt%d", how, mt), Later: map[string]int{}, Pending: map[string]int{}}
	prefix := c14Prefix(id)
	bufPath := prefix + bufferPathSuffix
	confB := c14Conf(prefix, prefix+"_qb", mt)
	confB.ShareMemoryBufferCap = 8 << 20
	csB, ssB, err := c14Sessions(id, "b", confB)
	if err != nil {
		c.Kind, c.Err = "broken", "harness: "+err.Error()
		return c
	}
	cli, srv, err := c14Pair(id, "p")
	if err != nil {
		c.Kind, c.Err = "broken", "harness: "+err.Error()
		return c
	}
	hsErr := make(chan error, 1)
	go func() { hsErr <- c14RawServerHandshake(srv.(*net.UnixConn), mt) }()
	confA := c14Conf(prefix, prefix+"_qa", mt)
	confA.ShareMemoryBufferCap = 8 << 20
	confA.QueueCap = 16
	csA, err := newSession(confA, cli, true)
	if err == nil {
		err = <-hsErr
	}
	if err != nil {
		c.Kind, c.Err = "broken", "harness: session A against the raw peer: "+err.Error()
		return c
	}
	fill := func(n int, b byte) []byte {
		p := make([]byte, n)
		for i := range p {
			p[i] = b
		}
		return p
	}
	// fill A's send queue: the raw peer never consumes
	s0, _ := csA.OpenStream()
	for i := 0; i < int(confA.QueueCap); i++ {
		s0.BufferWriter().WriteBytes(fill(64, 9))
		if err := s0.Flush(false); err != nil {
			c.Kind, c.Err = "broken", fmt.Sprintf("harness: filling the queue: flush %d: %v", i, err)
			return c
		}
	}
	base, ok := c14FreeCounts(bufPath)
	if !ok {
		c.Kind, c.Err = "broken", "harness: the shared buffer manager is not registered"
		return c
	}
	qfull0 := atomic.LoadUint64(&csA.stats.queueFullErrorCount)
	const parkedN = 5
	var wg sync.WaitGroup
	var mu sync.Mutex
	for i := 0; i < parkedN; i++ {
		st, _ := csA.OpenStream()
		st.BufferWriter().WriteBytes(fill(40<<10, byte(i)))
		wg.Add(1)
		go func(d time.Duration) {
			defer wg.Done()
			time.Sleep(d)
			err := st.Flush(false)
			mu.Lock()
			if err == ErrQueueFull {
				c.Pending["queue-full"]++
			} else {
				c.Pending[c14ErrClass(err)]++
			}
			mu.Unlock()
		}(time.Duration(i*15) * time.Millisecond)
	}
	t0 := time.Now()
	for atomic.LoadUint64(&csA.stats.queueFullErrorCount) == qfull0 && time.Since(t0) < 3*time.Second {
		time.Sleep(time.Millisecond)
	}
	time.Sleep(25 * time.Millisecond)
	parked, _ := c14FreeCounts(bufPath)
	c.Later["slices-in-parked-flushes"] = c14SumInts(base) - c14SumInts(parked)
	if peerDies {
		srv.Close()
	} else {
		csA.Close()
	}
	done := make(chan struct{})
	go func() { wg.Wait(); close(done) }()
	select {
	case <-done:
	case <-time.After(8 * time.Second):
		c.Hung = 1
		c.Oracle = append(c.Oracle, "C14:pending-call-hangs-after-session-closed")
	}
	t0 = time.Now()
	for !csA.IsClosed() && time.Since(t0) < 8*time.Second {
		time.Sleep(20 * time.Millisecond)
	}
	if !csA.IsClosed() {
		c.Oracle = append(c.Oracle, "C14:survivor-not-closed-after-peer-death")
	}
	time.Sleep(2600 * time.Millisecond)
	after, ok := c14FreeCounts(bufPath)
	if !ok {
		c.Oracle = append(c.Oracle, "C14:shared-buffer-manager-gone-while-sibling-alive")
		return c
	}
	c.Later["slices-missing-after-cleanup"] = c14SumInts(base) - c14SumInts(after)
	for i := range base {
		if i < len(after) && after[i] < base[i] {
			c.Oracle = append(c.Oracle, "C14:flush-parked-at-session-death-loses-slices")
			break
		}
	}
	if c.Pending["stream-closed"] > 0 {
		c.Feat = append(c.Feat, "flush-woken-by-close-notification")
	} else {
		c.Feat = append(c.Feat, "retry-window-missed")
	}
	if csB.IsClosed() || ssB.IsClosed() {
		c.Oracle = append(c.Oracle, "C14:sibling-session-closed-by-another-sessions-death")
	}
	srv.Close()
	csA.Close()
	csB.Close()
	ssB.Close()
	c.Residue = c14WaitClean(id, nil, 4*time.Second)
	for _, r := range c.Residue {
		c.Oracle = append(c.Oracle, "C14:closed-sessions-leave-"+strings.SplitN(r, ":", 2)[0])
	}
	c.Feat = append(c.Feat, "shared-manager", "send-queue-full", "raw-peer-never-reads", how)
	return c
}

// every exit of Flush's queue-full retry loop must reach the common `if err != nil { buf.recycle() }`: no
// return statement inside the loop's select.  Checked on the current source of stream.go ("" = as modelled).
func c14FlushShape() string {
	fset := token.NewFileSet()
	f, err := parser.ParseFile(fset, "stream.go", nil, 0)
	if err != nil {
		return "cannot parse stream.go: " + err.Error()
	}
	for _, d := range f.Decls {
		fd, ok := d.(*ast.FuncDecl)
		if !ok || fd.Name.Name != "Flush" || fd.Body == nil {
			continue
		}
		bad, loops := "", 0
		ast.Inspect(fd.Body, func(n ast.Node) bool {
			fs, ok := n.(*ast.ForStmt)
			if !ok {
				return true
			}
			loops++
			ast.Inspect(fs.Body, func(m ast.Node) bool {
				if _, ok := m.(*ast.ReturnStmt); ok {
					bad = "Flush's queue-full retry loop contains a return: that exit skips the common buf.recycle()"
				}
				return true
			})
			return true
		})
		if loops == 0 {
			return "Flush has no retry loop any more"
		}
		return bad
	}
	return "Stream.Flush not found in stream.go"
}

// ---- scenarios that may take the process down: run in a child -----------------------------------
func c14ChildRace() {
	id := 9000
	rounds := venvInt("VERIF_C14_ROUNDS", 6)
	for r := 0; r < rounds; r++ {
		cs, ss, err := c14Sessions(id+r, "r", c14Conf(c14Prefix(id+r), c14Prefix(id+r)+"_queue", MemMapType(r%2)))
		if err != nil {
			fmt.Println("ERR " + err.Error())
			return
		}
		go func() {
			for {
				st, err := ss.AcceptStream()
				if err != nil {
					return
				}
				go func() {
					for {
						if _, err := st.BufferReader().ReadBytes(1); err != nil {
							return
						}
						st.BufferReader().ReleasePreviousRead()
					}
				}()
			}
		}()
		var wg sync.WaitGroup
		var stop int32
		for i := 0; i < 8; i++ {
			st, err := cs.OpenStream()
			if err != nil {
				break
			}
			wg.Add(1)
			go func() {
				defer wg.Done()
				for atomic.LoadInt32(&stop) == 0 {
					if _, err := st.BufferWriter().WriteBytes(c14Msg(100, false)); err != nil {
						return
					}
					if err := st.Flush(false); err != nil {
						return
					}
				}
			}()
		}
		time.Sleep(time.Duration(20+r*15) * time.Millisecond)
		for i := 0; i < 3; i++ {
			go cs.Close()
		}
		done := make(chan struct{})
		go func() { wg.Wait(); close(done) }()
		select {
		case <-done:
		case <-time.After(10 * time.Second):
			fmt.Println("HANG writers did not stop after Close")
			atomic.StoreInt32(&stop, 1)
		}
		time.Sleep(1500 * time.Millisecond)
		ss.Close()
	}
	fmt.Println("DONE")
}

// OpenStream racing the death of the session.  OpenStream checks IsClosed first and registers the
// stream under streamLock later; the cleanup posted by Close drops the stream table under the same
// lock.  Many goroutines on few Ps loop in OpenStream (most of an iteration lies between the check and
// the lock, so a descheduled goroutine is usually parked inside that window) while the connection is
// severed: the dispatcher closes the session and runs the cleanup within microseconds.
func c14ChildOpenRace() {
	runtime.GOMAXPROCS(2)
	rounds := venvInt("VERIF_C14_ROUNDS", 12)
	var opened, failed int64
	for r := 0; r < rounds; r++ {
		id := 9700 + r
		cs, ss, err := c14Sessions(id, "o", c14Conf(c14Prefix(id), c14Prefix(id)+"_queue", MemMapType(r%2)))
		if err != nil {
			fmt.Println("ERR " + err.Error())
			return
		}
		var wg sync.WaitGroup
		for g := 0; g < 48; g++ {
			wg.Add(1)
			go func() {
				defer wg.Done()
				for {
					st, err := cs.OpenStream()
					if err != nil {
						atomic.AddInt64(&failed, 1)
						if c14ErrClass(err) == "nil" {
							fmt.Println("BADERR nil error without a stream")
						}
						return
					}
					_ = st
					atomic.AddInt64(&opened, 1)
				}
			}()
		}
		time.Sleep(time.Duration(5+3*r) * time.Millisecond)
		// the session must die on the dispatcher goroutine (remote close): then the cleanup follows the
		// shutdown flag within microseconds
		if r%2 == 0 {
			syscall.Shutdown(ss.connFd, syscall.SHUT_RDWR) // connection broken
		} else {
			ss.Close() // the peer closes
		}
		done := make(chan struct{})
		go func() { wg.Wait(); close(done) }()
		select {
		case <-done:
		case <-time.After(15 * time.Second):
			fmt.Println("HANG OpenStream loops did not stop after the session closed")
		}
		time.Sleep(200 * time.Millisecond)
		ss.Close()
		cs.Close()
		time.Sleep(1100 * time.Millisecond)
	}
	fmt.Printf("STATS opened=%d failed=%d\n", opened, failed)
	fmt.Println("DONE")
}

func c14ChildLater() {
	id := 9500
	cs, ss, err := c14Sessions(id, "l", c14Conf(c14Prefix(id), c14Prefix(id)+"_queue", MemMapTypeDevShmFile))
	if err != nil {
		fmt.Println("ERR " + err.Error())
		return
	}
	st, _ := cs.OpenStream()
	st.BufferWriter().WriteBytes(c14Msg(10, false))
	st.Flush(false)
	cs.Close()
	ss.Close()
	time.Sleep(3 * time.Second)
	fmt.Println("CLEANED")
	_, err = st.BufferWriter().WriteBytes(c14Msg(10, false))
	fmt.Println("WRITE " + c14ErrClass(err))
	err = st.Flush(false)
	fmt.Println("FLUSH " + c14ErrClass(err))
	fmt.Println("DONE")
}

func c14RunChild(id int, mode, name string, crashSig, notFailSig string) c14Case {
	c := c14Case{ID: id, Kind: "child", Name: name}
	cmd := exec.Command(os.Args[0], "-test.run", "^TestVerif_C14$")
	cmd.Env = append(os.Environ(), "VERIF_C14_CHILD="+mode)
	outb, err := cmd.CombinedOutput()
	out := string(outb)
	tail := out
	if len(tail) > 1500 {
		tail = tail[:700] + " ... " + tail[len(tail)-700:]
	}
	c.Child = tail
	crashed := err != nil || !strings.Contains(out, "DONE")
	if crashed {
		what := "exit"
		switch {
		case strings.Contains(out, "assignment to entry in nil map"):
			what = "nil-map-assignment"
		case strings.Contains(out, "SIGSEGV"), strings.Contains(out, "unexpected fault address"):
			what = "sigsegv"
		case strings.Contains(out, "nil pointer dereference"):
			what = "nil-dereference"
		case strings.Contains(out, "panic:"):
			what = "panic"
		}
		c.Feat = append(c.Feat, "child-crashed-"+what)
		if what == "nil-map-assignment" {
			crashSig = "C14:openstream-racing-close-panics-on-nil-stream-map"
		}
		c.Oracle = append(c.Oracle, crashSig)
	}
	if strings.Contains(out, "HANG") {
		c.Oracle = append(c.Oracle, "C14:pending-call-hangs-after-session-closed")
	}
	if notFailSig != "" && !crashed && strings.Contains(out, "FLUSH nil") {
		c.Oracle = append(c.Oracle, notFailSig)
	}
	// the child's leftovers are the child's; remove what a crash left in /dev/shm
	if m, _ := filepath.Glob(fmt.Sprintf("/dev/shm/vf14_%d_9*", cmd.Process.Pid)); len(m) > 0 {
		for _, f := range m {
			os.Remove(f)
		}
	}
	return c
}

// Scenarios in which user goroutines write while the session dies expose the process to the known
// unmap-vs-in-flight-user crash: they run in a process of their own, so that a crash is attributed to
// that defect instead of taking the whole harness down.
func c14Isolated(id int, kind, name string, k int, writers, readers bool, mt MemMapType, mode int) c14Case {
	tmp := filepath.Join(c14Scratch, fmt.Sprintf("iso%d.jsonl", id))
	os.Remove(tmp)
	cmd := exec.Command(os.Args[0], "-test.run", "^TestVerif_C14$")
	cmd.Env = append(os.Environ(), "VERIF_C14_CHILD=scenario", "VERIF_OUT="+tmp,
		fmt.Sprintf("VERIF_C14_SPEC=%s|%s|%d|%t|%t|%d|%d|%d", kind, name, k, writers, readers, mt, id, mode))
	outb, err := cmd.CombinedOutput()
	defer os.Remove(tmp)
	if b, rerr := os.ReadFile(tmp); rerr == nil && err == nil {
		var c c14Case
		if json.Unmarshal([]byte(strings.TrimSpace(string(b))), &c) == nil && c.Name != "" {
			c.Feat = append(c.Feat, "own-process")
			return c
		}
	}
	out := string(outb)
	c := c14Case{ID: id, Kind: kind, Name: name, Feat: []string{"own-process"}}
	if len(out) > 1500 {
		out = out[:700] + " ... " + out[len(out)-700:]
	}
	c.Child = out
	if cmd.Process != nil { // what the crashed process left in /dev/shm is not the survivor's residue
		if m, _ := filepath.Glob(fmt.Sprintf("/dev/shm/vf14_%d_*", cmd.Process.Pid)); len(m) > 0 {
			for _, f := range m {
				os.Remove(f)
			}
		}
	}
	if strings.Contains(out, "SIGSEGV") || strings.Contains(out, "unexpected fault address") || strings.Contains(out, "nil pointer dereference") {
		c.Feat = append(c.Feat, "child-crashed-sigsegv")
		c.Oracle = append(c.Oracle, "C14:unmap-while-user-thread-inside-flush")
	} else {
		c.Kind, c.Err = "broken", "harness: isolated scenario produced no result"
	}
	return c
}

func c14ChildScenario(t *testing.T) {
	var kind, name string
	var k, mt, id, mode int
	var writers, readers bool
	f := strings.Split(os.Getenv("VERIF_C14_SPEC"), "|")
	if len(f) != 8 {
		t.Fatal("bad spec")
	}
	kind, name = f[0], f[1]
	fmt.Sscan(f[2], &k)
	writers, readers = f[3] == "true", f[4] == "true"
	fmt.Sscan(f[5], &mt)
	fmt.Sscan(f[6], &id)
	fmt.Sscan(f[7], &mode)
	c14Scratch = os.Getenv("VERIF_SCRATCH")
	out := vopenOut(t)
	defer out.close()
	if kind == "killed" {
		out.emit(c14RunKilled(id, name, k, writers, readers, MemMapType(mt), mode))
	} else {
		out.emit(c14RunSevered(id, name, k, writers, readers, MemMapType(mt)))
	}
}

func TestVerif_C14(t *testing.T) {
	switch os.Getenv("VERIF_C14_CHILD") {
	case "scenario":
		c14ChildScenario(t)
		return
	case "server":
		c14ChildServer()
		return
	case "race":
		c14Scratch = os.TempDir()
		c14ChildRace()
		return
	case "later":
		c14Scratch = os.TempDir()
		c14ChildLater()
		return
	case "openrace":
		c14Scratch = os.TempDir()
		c14ChildOpenRace()
		return
	}
	out := vopenOut(t)
	defer out.close()
	c14Scratch = os.Getenv("VERIF_SCRATCH")
	if c14Scratch == "" {
		c14Scratch = filepath.Join(os.TempDir(), fmt.Sprintf("vf14_%d", os.Getpid()))
	}
	os.MkdirAll(c14Scratch, 0o755)
	defer os.RemoveAll(c14Scratch)
	seed := uint64(venvInt("VERIF_SEED", 1))
	rounds := venvInt("VERIF_ROUNDS", 1)
	r := newVrand(seed)
	var mu sync.Mutex
	emit := func(c c14Case) {
		mu.Lock()
		out.emit(c)
		mu.Unlock()
	}
	id := 0
	next := func() int { id++; return id }
	emit(c14Case{ID: 0, Kind: "source", Name: "every-exit-of-the-flush-retry-loop-reaches-the-common-recycle", Err: c14FlushShape()})
	for round := 0; round < rounds; round++ {
		var wg sync.WaitGroup
		run := func(f func() c14Case) {
			wg.Add(1)
			go func() { defer wg.Done(); emit(f()) }()
		}
		for _, mt := range []MemMapType{MemMapTypeDevShmFile, MemMapTypeMemFd} {
			mt := mt
			i1, i2, i3, i4, i5, i6, i7 := next(), next(), next(), next(), next(), next(), next()
			i8, i9, i10 := next(), next(), next()
			i11, i12, i13 := next(), next(), next()
			run(func() c14Case { return c14RunSiblingSlices(i11, mt) })
			run(func() c14Case { return c14RunParkedFlush(i12, mt, false) })
			run(func() c14Case { return c14RunParkedFlush(i13, mt, true) })
			run(func() c14Case {
				return c14RunKilled(i8, fmt.Sprintf("killed-peer-hung-with-unread-bytes-readers-pending-mt%d", mt), 2, false, true, mt, 1)
			})
			run(func() c14Case {
				return c14RunKilled(i9, fmt.Sprintf("killed-peer-hung-with-unread-bytes-idle-mt%d", mt), 1, false, false, mt, 1)
			})
			run(func() c14Case {
				return c14Isolated(i10, "killed", fmt.Sprintf("killed-survivor-has-unread-incoming-bytes-mt%d", mt), 1, false, true, mt, 2)
			})
			k := 1 + r.intn(5)
			run(func() c14Case { return c14RunTrace(i1, mt) })
			run(func() c14Case {
				return c14RunKilled(i2, fmt.Sprintf("killed-idle-after-%d-roundtrips-mt%d", k, mt), k, false, false, mt, 0)
			})
			run(func() c14Case {
				return c14Isolated(i3, "killed", fmt.Sprintf("killed-mid-flush-mt%d", mt), 1, true, false, mt, 0)
			})
			run(func() c14Case {
				return c14Isolated(i4, "killed", fmt.Sprintf("killed-mid-read-and-flush-mt%d", mt), 0, true, true, mt, 0)
			})
			run(func() c14Case {
				return c14RunSevered(i5, fmt.Sprintf("severed-idle-after-%d-roundtrips-mt%d", k, mt), k, false, false, mt)
			})
			run(func() c14Case {
				return c14Isolated(i6, "severed", fmt.Sprintf("severed-mid-flush-mt%d", mt), 1, true, false, mt, 0)
			})
			run(func() c14Case {
				return c14Isolated(i7, "severed", fmt.Sprintf("severed-mid-read-and-flush-mt%d", mt), 0, true, true, mt, 0)
			})
		}
		io := next()
		run(func() c14Case {
			return c14RunChild(io, "openrace", "openstream-racing-close", "C14:unmap-while-user-thread-inside-flush", "")
		})
		ir, il := next(), next()
		run(func() c14Case {
			return c14RunChild(ir, "race", "close-racing-flush", "C14:unmap-while-user-thread-inside-flush", "")
		})
		run(func() c14Case {
			return c14RunChild(il, "later", "write-after-cleanup", "C14:write-after-cleanup-touches-unmapped-memory", "C14:later-call-succeeds-on-closed-session")
		})
		wg.Wait()
		// alone: the gate holds the process-wide dispatcher for a moment
		emit(c14RunSyncClose(next(), MemMapTypeDevShmFile))
		emit(c14RunSyncClose(next(), MemMapTypeMemFd))
	}
}
