//go:build verif

package shmipc

// C15 correspondence + oracle harness (mechanisms D/T): scripted histories on a REAL SessionManager
// (one client session, small MaxStreamNum so that the ring wraps and overflows) talking to REAL server
// sessions over a unix socket.  One op at a time with wait-for-quiescence; after every op a snapshot of
// the projected observables (identity = index of first appearance, flags, counts) is written, and the
// property ORACLE (independent of the model) is evaluated:
//   * a stream returned by GetStream is open, its session is not shut down, it carries no bytes of an
//     earlier use (recvBuf.Len()==0, no pending data, sendBuf.Len()==0) and is not held by anybody;
//   * ring sanity: tail-head <= capacity, no stream twice in the ring, none both in the ring and held;
//   * no leak: GetActiveStreamCount(live client session) == #not-closed streams that callers hold or
//     that sit in the ring.
// A second, concurrent scenario (many goroutines Get/Put on the real pool) checks the ring clauses under
// real concurrency (oracle only).

import (
	"fmt"
	"io"
	"net"
	"os"
	"strings"
	"sync"
	"sync/atomic"
	"testing"
	"time"
)

type c15Snap struct {
	Active    int      `json:"active"`
	Head      uint64   `json:"head"`
	Tail      uint64   `json:"tail"`
	Ring      []int    `json:"ring"`    // stream indices head..tail-1 (-1 = nil slot, -2 = unknown stream)
	Streams   [][7]int `json:"streams"` // per stream index: state, rlen, rslices, npend, slen, sslices, infb
	Unhealthy int      `json:"unhealthy"`
	Sess      int      `json:"sess"` // index of the pool's current session (number of rebuilds)
	Shut      int      `json:"shut"`
}

type c15Op struct {
	Op   string  `json:"op"`
	C    int     `json:"c"`
	S    int     `json:"s"`
	N    int     `json:"n"`
	Fb   int     `json:"fb"`
	Res  int     `json:"res"` // get: 0 ok, 1 unhealthy, 2 session shutdown, 3 other error
	Snap c15Snap `json:"snap"`
}

type c15Case struct {
	ID      int      `json:"id"`
	Retries int      `json:"retries"`           // how many times the history was re-run because a harness wait expired
	Expired []string `json:"expired,omitempty"` // the waits that expired in the abandoned attempts
	Kind   string   `json:"kind"`
	Cap    int      `json:"cap"`
	Ops    []c15Op  `json:"ops"`
	Oracle []string `json:"oracle"`
	Feat   []string `json:"feat"`
	Note   string   `json:"note,omitempty"`
}

type c15World struct {
	id      int
	cap     int
	sockets string
	ln      *net.UnixListener
	sm      *SessionManager
	mu      sync.Mutex
	servers []*Session
	streams []*Stream       // by index of first appearance
	index   map[*Stream]int // identity
	sessOf  []*Session      // session of each stream
	sessIdx map[*Session]int
	held    map[int]int // stream index -> caller
	talked  map[int]bool
	dirtyS  map[int]bool // previous holder left unflushed bytes in sendBuf at PutBack
	lateD   map[int]bool // peer data arrived while the stream was not held
	oracle  []string
	feat    map[string]bool
	fatal   string
	win     *Session // session whose shutdown window is open
}

// every wait of the harness polls up to this bound; a history in which a wait expires is re-run from
// scratch (fresh manager and sessions, same seed) up to 2 more times before anything is reported
const c15WaitBound = 60 * time.Second

func c15Wait(cond func() bool, d time.Duration) bool {
	dl := time.Now().Add(d)
	for i := 0; ; i++ {
		if cond() {
			return true
		}
		if time.Now().After(dl) {
			return false
		}
		if i < 200 {
			time.Sleep(50 * time.Microsecond)
		} else {
			time.Sleep(time.Millisecond)
		}
	}
}

func c15Conf(id, cap int) *SessionManagerConfig {
	c := DefaultConfig()
	c.MemMapType = MemMapTypeMemFd
	c.ConnectionWriteTimeout = 20 * time.Second
	c.InitializeTimeout = 10 * time.Second
	c.ShareMemoryPathPrefix = fmt.Sprintf("/dev/shm/verif_c15_%d_%d", os.Getpid(), id)
	c.QueuePath = c.ShareMemoryPathPrefix + "_queue"
	c.ShareMemoryBufferCap = 1 << 20
	c.BufferSliceSizes = []*SizePercentPair{{Size: 4096, Percent: 100}}
	c.LogOutput = io.Discard
	c.rebuildInterval = 20 * time.Millisecond
	return &SessionManagerConfig{Config: c, Network: "unix",
		Address:    fmt.Sprintf("/tmp/verif_c15_%d_%d.sock", os.Getpid(), id),
		SessionNum: 1, MaxStreamNum: cap, StreamMaxIdleTime: time.Minute}
}

func c15NewWorld(id, cap int) (*c15World, error) {
	w := &c15World{id: id, cap: cap, index: map[*Stream]int{}, sessIdx: map[*Session]int{}, held: map[int]int{},
		talked: map[int]bool{}, dirtyS: map[int]bool{}, lateD: map[int]bool{}, feat: map[string]bool{}}
	conf := c15Conf(id, cap)
	w.sockets = conf.Address
	os.Remove(conf.Address)
	ln, err := net.ListenUnix("unix", &net.UnixAddr{Name: conf.Address, Net: "unix"})
	if err != nil {
		return nil, err
	}
	w.ln = ln
	go func() {
		for {
			conn, err := ln.Accept()
			if err != nil {
				return
			}
			sc := *conf.Config
			srv, err := Server(conn, &sc)
			if err != nil {
				continue
			}
			w.mu.Lock()
			w.servers = append(w.servers, srv)
			w.mu.Unlock()
		}
	}()
	sm, err := NewSessionManager(conf)
	if err != nil {
		ln.Close()
		return nil, err
	}
	w.sm = sm
	w.sessIdx[sm.pools[0].Session()] = 0
	return w, nil
}

func (w *c15World) close() {
	if w.win != nil {
		w.win.shutdownLock.Unlock()
		w.win = nil
	}
	w.sm.Close()
	w.mu.Lock()
	for _, s := range w.servers {
		s.Close()
	}
	w.mu.Unlock()
	w.ln.Close()
	os.Remove(w.sockets)
}

func (w *c15World) pool() *streamPool { return w.sm.pools[0] }

// the server session that is the peer of client session cs
func (w *c15World) serverOf(cs *Session) *Session {
	w.mu.Lock()
	defer w.mu.Unlock()
	for _, s := range w.servers {
		if s.queueManager != nil && cs.queueManager != nil && s.queueManager.path == cs.queueManager.path && !s.IsClosed() {
			return s
		}
	}
	return nil
}

func c15PendLen(s *Stream) int {
	s.pendingData.Lock()
	n := len(s.pendingData.unread)
	s.pendingData.Unlock()
	return n
}

func (w *c15World) idx(s *Stream) int {
	if s == nil {
		return -1
	}
	if i, ok := w.index[s]; ok {
		return i
	}
	return -2
}

func (w *c15World) snap() c15Snap {
	p := w.pool()
	var sn c15Snap
	cur := p.Session()
	sn.Active = cur.GetActiveStreamCount()
	sn.Unhealthy = int(atomic.LoadUint32(&cur.unhealthy))
	sn.Sess = w.sessIdx[cur]
	if cur.IsClosed() {
		sn.Shut = 1
	}
	p.Lock()
	sn.Head, sn.Tail = p.head, p.tail
	sn.Ring = []int{}
	if p.capacity > 0 {
		for i := p.head; i < p.tail && i < p.head+uint64(p.capacity)+2; i++ {
			sn.Ring = append(sn.Ring, w.idx(p.streams[i%uint64(p.capacity)]))
		}
	}
	p.Unlock()
	sn.Streams = make([][7]int, len(w.streams))
	for i, s := range w.streams {
		fb := 0
		if s.inFallbackState {
			fb = 1
		}
		sn.Streams[i] = [7]int{int(s.getStreamState()), s.recvBuf.Len(), s.recvBuf.sliceList.size(), c15PendLen(s),
			s.sendBuf.Len(), s.sendBuf.sliceList.size(), fb}
	}
	return sn
}

func (w *c15World) fail(sig, what string) {
	w.oracle = append(w.oracle, sig+"|"+what)
}

// the no-leak / ring oracle, evaluated at every quiescent point
func (w *c15World) checkQuiescent(sn c15Snap, after string) {
	if sn.Tail < sn.Head || sn.Tail-sn.Head > uint64(w.cap) {
		w.fail("C15:ring-bound", fmt.Sprintf("after %s: tail-head = %d with capacity %d", after, int64(sn.Tail-sn.Head), w.cap))
	}
	seen := map[int]bool{}
	for _, r := range sn.Ring {
		if r < 0 {
			w.fail("C15:ring-holds-nil-or-unknown-stream", fmt.Sprintf("after %s: ring slot holds %d", after, r))
			continue
		}
		if seen[r] {
			w.fail("C15:stream-twice-in-ring", fmt.Sprintf("after %s: stream #%d twice in the ring", after, r))
		}
		seen[r] = true
		if _, h := w.held[r]; h {
			w.fail("C15:stream-pooled-and-held", fmt.Sprintf("after %s: stream #%d is in the ring and held by caller %d", after, r, w.held[r]))
		}
	}
	if sn.Shut == 1 {
		return
	}
	cur := w.pool().Session()
	expect := 0
	var leaked []int
	for i, s := range w.streams {
		if w.sessOf[i] != cur || s.getStreamState() == uint32(streamClosed) {
			continue
		}
		_, h := w.held[i]
		if h || seen[i] {
			expect++
		} else {
			leaked = append(leaked, i)
		}
	}
	if sn.Active != expect {
		sig := "C15:active-count-differs-from-held-plus-pooled"
		what := fmt.Sprintf("after %s: GetActiveStreamCount=%d but callers hold + ring keep %d not-closed streams", after, sn.Active, expect)
		if sn.Active == expect+len(leaked) && len(leaked) > 0 {
			all := true
			for _, i := range leaked {
				if w.streams[i].getStreamState() != uint32(streamHalfClosed) {
					all = false
				}
			}
			if all {
				sig = "C15:discarded-pooled-stream-not-closed"
				what += fmt.Sprintf("; streams %v were closed by the peer while pooled, dropped by getOrOpenStream without Close and are still in the session's stream table", leaked)
			}
		}
		w.fail(sig, what)
	}
}

func (w *c15World) rec(c *c15Case, op c15Op) {
	if w.fatal != "" {
		return
	}
	op.Snap = w.snap()
	c.Ops = append(c.Ops, op)
	w.checkQuiescent(op.Snap, fmt.Sprintf("op %d (%s)", len(c.Ops)-1, op.Op))
}

// ---- ops -------------------------------------------------------------------------------------

func (w *c15World) opGet(c *c15Case, caller int) {
	if w.fatal != "" {
		return
	}
	op := c15Op{Op: "get", C: caller, S: -1}
	s, err := w.sm.GetStream()
	switch {
	case err == nil:
		op.Res = 0
	case err == ErrSessionUnhealthy:
		op.Res = 1
		w.feat["get-unhealthy"] = true
	case err == ErrSessionShutdown:
		op.Res = 2
	default:
		op.Res = 3
	}
	if err == nil {
		i, ok := w.index[s]
		if !ok {
			i = len(w.streams)
			w.index[s] = i
			w.streams = append(w.streams, s)
			w.sessOf = append(w.sessOf, s.session)
		} else {
			w.feat["reuse"] = true
		}
		op.S = i
		// ORACLE on the returned stream
		if h, dup := w.held[i]; dup {
			w.fail("C15:stream-handed-to-two-callers", fmt.Sprintf("GetStream returned stream #%d to caller %d while caller %d holds it", i, caller, h))
		}
		if !s.IsOpen() {
			w.fail("C15:get-returned-not-open-stream", fmt.Sprintf("GetStream returned stream #%d in state %d", i, s.getStreamState()))
		}
		if s.Session().IsClosed() {
			w.fail("C15:get-returned-stream-of-closed-session", fmt.Sprintf("GetStream returned stream #%d whose session is shut down", i))
		}
		if ok {
			if n := s.recvBuf.Len(); n > 0 {
				if w.dirtyS[i] {
					w.fail("C15:unflushed-send-bytes-survive-reset", fmt.Sprintf("stream #%d reused with recvBuf.Len()=%d: bytes the previous holder wrote but never flushed were swapped into the receive buffer", i, n))
				} else {
					w.fail("C15:get-returned-stream-with-unread-bytes", fmt.Sprintf("stream #%d reused with recvBuf.Len()=%d", i, n))
				}
			}
			if n := s.sendBuf.Len(); n > 0 {
				if w.dirtyS[i] {
					w.fail("C15:unflushed-send-bytes-survive-reset", fmt.Sprintf("stream #%d reused with sendBuf.Len()=%d: bytes the previous holder wrote but never flushed will be sent ahead of the next holder's data", i, n))
				} else {
					w.fail("C15:get-returned-stream-with-unsent-bytes", fmt.Sprintf("stream #%d reused with sendBuf.Len()=%d", i, n))
				}
			}
			if n := c15PendLen(s); n > 0 {
				if w.lateD[i] {
					w.fail("C15:late-data-on-pooled-stream-reaches-next-user", fmt.Sprintf("stream #%d reused with %d pending message(s) that the peer sent for the previous holder after PutBack", i, n))
				} else {
					w.fail("C15:get-returned-stream-with-pending-data", fmt.Sprintf("stream #%d reused with %d pending messages", i, n))
				}
			}
			if s.inFallbackState {
				w.fail("C15:get-returned-fallback-stream", fmt.Sprintf("stream #%d reused while inFallbackState", i))
			}
		}
		w.held[i] = caller
		delete(w.dirtyS, i)
		delete(w.lateD, i)
	}
	w.rec(c, op)
}

func (w *c15World) opPut(c *c15Case, caller, i int) {
	if w.fatal != "" {
		return
	}
	if i < 0 || i >= len(w.streams) {
		w.fatal = fmt.Sprintf("script diverged: stream #%d was never handed out (the pool returned an unexpected stream earlier)", i)
		return
	}
	if h, ok := w.held[i]; !ok || h != caller {
		w.fatal = fmt.Sprintf("script diverged: caller %d does not hold stream #%d", caller, i)
		return
	}
	s := w.streams[i]
	if s.sendBuf.Len() > 0 && s.IsOpen() {
		w.dirtyS[i] = true
		w.feat["put-with-unflushed-bytes"] = true
	}
	if s.recvBuf.Len() > 0 || c15PendLen(s) > 0 {
		w.feat["put-with-unread-data"] = true
	}
	if s.inFallbackState {
		w.feat["put-fallback-stream"] = true
	}
	p := w.pool()
	p.Lock()
	full := p.tail-p.head >= uint64(p.capacity)
	p.Unlock()
	if full {
		w.feat["put-on-full-ring"] = true
	}
	w.sm.PutBack(s)
	delete(w.held, i)
	if s.getStreamState() == uint32(streamClosed) {
		delete(w.dirtyS, i)
	}
	if w.pool().tail > uint64(w.cap) {
		w.feat["ring-wrapped"] = true
	}
	w.rec(c, c15Op{Op: "put", C: caller, S: i})
}

func (w *c15World) srvStream(i int) *Stream {
	srv := w.serverOf(w.sessOf[i])
	if srv == nil {
		return nil
	}
	return srv.getStreamById(w.streams[i].id)
}

// drain everything the server stream has received (the server application reads the request)
func (w *c15World) srvDrain(ss *Stream) {
	ss.pendingData.moveTo(ss.recvBuf)
	if n := ss.recvBuf.Len(); n > 0 {
		ss.recvBuf.Discard(n)
	}
	ss.recvBuf.ReleasePreviousRead()
}

// NOTE: touching the buffers of a stream whose session has shut down faults (the shared memory is
// unmapped by Session.Close; that is C14's subject) - the generator never does it.
func (w *c15World) opWrite(c *c15Case, caller, i, n int) {
	if w.fatal != "" {
		return
	}
	if i < 0 || i >= len(w.streams) {
		w.fatal = fmt.Sprintf("script diverged: stream #%d was never handed out (the pool returned an unexpected stream earlier)", i)
		return
	}
	s := w.streams[i]
	if s.session.IsClosed() {
		return
	}
	s.BufferWriter().WriteBytes(make([]byte, n))
	w.rec(c, c15Op{Op: "write", C: caller, S: i, N: n})
}

// hold every free slot of the shared memory (so that the next allocation falls back to the heap)
func (w *c15World) exhaust(bm *bufferManager) []*bufferSlice {
	var held []*bufferSlice
	for {
		b, err := bm.allocShmBuffer(1)
		if err != nil {
			break
		}
		held = append(held, b)
	}
	return held
}

func (w *c15World) opFlush(c *c15Case, caller, i int) {
	if w.fatal != "" {
		return
	}
	if i < 0 || i >= len(w.streams) {
		w.fatal = fmt.Sprintf("script diverged: stream #%d was never handed out (the pool returned an unexpected stream earlier)", i)
		return
	}
	s := w.streams[i]
	if s.session.IsClosed() {
		return
	}
	had := s.sendBuf.Len() > 0
	wasOpen := s.IsOpen()
	fb := 0
	if had && wasOpen && (s.inFallbackState || !s.sendBuf.isFromShareMemory()) {
		fb = 1
	}
	var before int
	ss := w.srvStream(i)
	if ss != nil {
		before = c15PendLen(ss)
	}
	s.Flush(false)
	if had && wasOpen && !s.session.IsClosed() {
		w.talked[i] = true
		// wait until the server has the data, then let the server application read it
		ok := c15Wait(func() bool {
			ss = w.srvStream(i)
			return ss != nil && (c15PendLen(ss) > before || ss.recvBuf.Len() > 0)
		}, c15WaitBound)
		if !ok {
			w.fatal = "flush: data did not reach the server within the bound"
		} else {
			w.srvDrain(ss)
		}
	}
	if fb == 1 {
		w.feat["fallback-flush"] = true
	}
	w.rec(c, c15Op{Op: "flush", C: caller, S: i, Fb: fb})
}

// write n bytes while the shared memory is exhausted (heap slice => Flush goes through the socket)
func (w *c15World) opWriteFb(c *c15Case, caller, i, n int) {
	if w.fatal != "" {
		return
	}
	if i < 0 || i >= len(w.streams) {
		w.fatal = fmt.Sprintf("script diverged: stream #%d was never handed out (the pool returned an unexpected stream earlier)", i)
		return
	}
	s := w.streams[i]
	if s.session.IsClosed() || s.sendBuf.sliceList.size() > 0 {
		// a reserved (swapped-in) slice would take the bytes: plain write
		w.opWrite(c, caller, i, n)
		return
	}
	hold := w.exhaust(s.session.bufferManager)
	s.BufferWriter().WriteBytes(make([]byte, n))
	for _, b := range hold {
		s.session.bufferManager.recycleBuffer(b)
	}
	w.rec(c, c15Op{Op: "write", C: caller, S: i, N: n, Fb: 1})
}

func (w *c15World) opSrvSend(c *c15Case, i, n int) bool {
	if w.fatal != "" {
		return false
	}
	if i < 0 || i >= len(w.streams) {
		w.fatal = fmt.Sprintf("script diverged: stream #%d was never handed out (the pool returned an unexpected stream earlier)", i)
		return false
	}
	ss := w.srvStream(i)
	s := w.streams[i]
	if ss == nil || !ss.IsOpen() || s.getStreamState() == uint32(streamClosed) || s.session.IsClosed() {
		return false
	}
	before := c15PendLen(s)
	fb := 0
	if ss.inFallbackState {
		fb = 1
	}
	ss.BufferWriter().WriteBytes(make([]byte, n))
	if err := ss.Flush(false); err != nil {
		w.fatal = "server flush failed: " + err.Error()
		return true
	}
	if !c15Wait(func() bool { return c15PendLen(s) > before }, c15WaitBound) {
		w.fatal = "server data did not reach the client stream within the bound"
	}
	if _, h := w.held[i]; !h {
		w.lateD[i] = true
		w.feat["peer-data-for-pooled-stream"] = true
	}
	w.rec(c, c15Op{Op: "srvsend", S: i, N: n, Fb: fb})
	return true
}

func (w *c15World) opRead(c *c15Case, caller, i, k int) bool {
	if w.fatal != "" {
		return false
	}
	if i < 0 || i >= len(w.streams) {
		w.fatal = fmt.Sprintf("script diverged: stream #%d was never handed out (the pool returned an unexpected stream earlier)", i)
		return false
	}
	s := w.streams[i]
	if s.session.IsClosed() {
		return false
	}
	s.pendingData.moveTo(s.recvBuf) // what readMore does first; keeps the op non-blocking
	if k > s.recvBuf.Len() {
		k = s.recvBuf.Len()
	}
	if k > 0 {
		if _, err := s.BufferReader().ReadBytes(k); err != nil {
			w.fatal = "ReadBytes failed: " + err.Error()
		}
	}
	w.rec(c, c15Op{Op: "read", C: caller, S: i, N: k})
	return true
}

func (w *c15World) opRelease(c *c15Case, caller, i int) {
	if w.fatal != "" {
		return
	}
	if i < 0 || i >= len(w.streams) {
		w.fatal = fmt.Sprintf("script diverged: stream #%d was never handed out (the pool returned an unexpected stream earlier)", i)
		return
	}
	if w.streams[i].session.IsClosed() {
		return
	}
	w.streams[i].BufferReader().ReleasePreviousRead()
	w.rec(c, c15Op{Op: "release", C: caller, S: i})
}

func (w *c15World) opCloseS(c *c15Case, caller, i int) {
	if w.fatal != "" {
		return
	}
	if i < 0 || i >= len(w.streams) {
		w.fatal = fmt.Sprintf("script diverged: stream #%d was never handed out (the pool returned an unexpected stream earlier)", i)
		return
	}
	w.streams[i].Close()
	w.rec(c, c15Op{Op: "closes", C: caller, S: i})
}

func (w *c15World) opSrvClose(c *c15Case, i int) bool {
	if w.fatal != "" {
		return false
	}
	if i < 0 || i >= len(w.streams) {
		w.fatal = fmt.Sprintf("script diverged: stream #%d was never handed out (the pool returned an unexpected stream earlier)", i)
		return false
	}
	ss := w.srvStream(i)
	s := w.streams[i]
	if ss == nil || !ss.IsOpen() || s.session.IsClosed() {
		return false
	}
	was := s.getStreamState()
	ss.Close()
	if was == uint32(streamOpened) {
		if !c15Wait(func() bool { return s.getStreamState() != uint32(streamOpened) }, c15WaitBound) {
			w.fatal = "peer close did not reach the client stream within the bound"
		}
	} else {
		time.Sleep(2 * time.Millisecond)
	}
	if _, h := w.held[i]; !h {
		w.feat["peer-close-while-pooled"] = true
	} else {
		w.feat["peer-close-while-held"] = true
	}
	w.rec(c, c15Op{Op: "srvclose", S: i})
	return true
}

func (w *c15World) opHeal(c *c15Case) {
	if w.fatal != "" {
		return
	}
	atomic.StoreUint32(&w.pool().Session().unhealthy, 0) // the 30 s circuit-breaker timer fires
	w.rec(c, c15Op{Op: "heal"})
}

// the server side of the current session goes away; the manager closes the pool and rebuilds
func (w *c15World) opSessLoss(c *c15Case) {
	if w.fatal != "" {
		return
	}
	old := w.pool().Session()
	var srv *Session
	c15Wait(func() bool { srv = w.serverOf(old); return srv != nil }, c15WaitBound)
	if srv == nil {
		w.fatal = "no server session appeared within the bound"
		return
	}
	srv.Close()
	ok := c15Wait(func() bool {
		if !old.IsClosed() {
			return false
		}
		old.streamLock.RLock()
		cleaned := old.streams == nil
		old.streamLock.RUnlock()
		cur := w.pool().Session()
		return cleaned && cur != old && !cur.IsClosed()
	}, c15WaitBound)
	if !ok {
		w.fatal = "session was not rebuilt within the bound"
		return
	}
	// the pool was emptied by the manager's background goroutine before the rebuild
	cur := w.pool().Session()
	if _, known := w.sessIdx[cur]; !known {
		w.sessIdx[cur] = len(w.sessIdx)
	}
	if !c15Wait(func() bool { return w.serverOf(cur) != nil }, c15WaitBound) {
		w.fatal = "the server side of the rebuilt session did not appear within the bound"
	}
	w.feat["session-loss"] = true
	w.rec(c, c15Op{Op: "sessloss"})
}

// The window in which the session is already shut down (shutdown flag set) but its streams have not
// been closed yet: Session.Close() has set the flag and waits for shutdownLock, which the harness holds.
// (shutdownErr is pre-set as Close would do next, otherwise OpenStream returns (nil, nil) in the window.)
func (w *c15World) opShutWin(c *c15Case) {
	if w.fatal != "" {
		return
	}
	old := w.pool().Session()
	old.shutdownLock.Lock()
	if old.shutdownErr == nil {
		old.shutdownErr = ErrSessionShutdown
	}
	go old.Close()
	if !c15Wait(func() bool { return old.IsClosed() }, c15WaitBound) {
		w.fatal = "Session.Close did not set the shutdown flag within the bound"
	}
	w.win = old
	w.feat["shutdown-window"] = true
	w.rec(c, c15Op{Op: "shutwin"})
}

func (w *c15World) opEndWin(c *c15Case) {
	if w.fatal != "" {
		return
	}
	old := w.win
	w.win = nil
	old.shutdownLock.Unlock()
	ok := c15Wait(func() bool {
		old.streamLock.RLock()
		cleaned := old.streams == nil
		old.streamLock.RUnlock()
		cur := w.pool().Session()
		return cleaned && cur != old && !cur.IsClosed()
	}, c15WaitBound)
	if !ok {
		w.fatal = "session was not rebuilt within the bound"
		return
	}
	cur := w.pool().Session()
	if _, known := w.sessIdx[cur]; !known {
		w.sessIdx[cur] = len(w.sessIdx)
	}
	if !c15Wait(func() bool { return w.serverOf(cur) != nil }, c15WaitBound) {
		w.fatal = "the server side of the rebuilt session did not appear within the bound"
	}
	w.feat["session-loss"] = true
	w.rec(c, c15Op{Op: "endwin"})
}

// ---- generator -------------------------------------------------------------------------------

func c15History(w *c15World, r *vrand, c *c15Case, nops int) {
	ncallers := 1 + r.intn(3)
	heldBy := func(caller int) []int {
		var l []int
		for i := 0; i < len(w.streams); i++ {
			if h, ok := w.held[i]; ok && h == caller {
				l = append(l, i)
			}
		}
		return l
	}
	anyHeld := func() (int, int, bool) {
		var l []int
		for i := 0; i < len(w.streams); i++ {
			if _, ok := w.held[i]; ok {
				l = append(l, i)
			}
		}
		if len(l) == 0 {
			return 0, 0, false
		}
		i := l[r.intn(len(l))]
		return w.held[i], i, true
	}
	pooled := func() []int {
		sn := w.snap()
		var l []int
		for _, x := range sn.Ring {
			if x >= 0 {
				l = append(l, x)
			}
		}
		return l
	}
	losses := 0
	for len(c.Ops) < nops && w.fatal == "" {
		caller := r.intn(ncallers)
		x := r.intn(100)
		if w.win != nil {
			// inside the shutdown window only pool operations make sense
			switch {
			case x < 30:
				if len(w.held) < w.cap+3 {
					w.opGet(c, caller)
				}
			case x < 70:
				if l := heldBy(caller); len(l) > 0 {
					w.opPut(c, caller, l[r.intn(len(l))])
				}
			case x < 80:
				if cl, i, ok := anyHeld(); ok {
					w.opCloseS(c, cl, i)
				}
			default:
				w.opEndWin(c)
			}
			continue
		}
		switch {
		case x < 22:
			if len(w.held) < w.cap+3 {
				w.opGet(c, caller)
			}
		case x < 44:
			if l := heldBy(caller); len(l) > 0 {
				w.opPut(c, caller, l[r.intn(len(l))])
			}
		case x < 58: // request / response
			if cl, i, ok := anyHeld(); ok {
				w.opWrite(c, cl, i, 1+r.intn(300))
				if r.chance(85) {
					w.opFlush(c, cl, i)
					if r.chance(85) {
						m := 1 + r.intn(300)
						if w.opSrvSend(c, i, m) {
							switch r.intn(5) {
							case 0: // unread response
							case 1:
								w.opRead(c, cl, i, 1+r.intn(m))
							default:
								w.opRead(c, cl, i, m)
								if r.chance(40) {
									w.opRelease(c, cl, i)
								}
							}
						}
					}
				}
			}
		case x < 66: // peer closes a pooled or held stream
			var cand []int
			if r.chance(70) {
				cand = pooled()
			} else if _, i, ok := anyHeld(); ok {
				cand = []int{i}
			}
			var ok2 []int
			for _, i := range cand {
				if w.talked[i] {
					ok2 = append(ok2, i)
				}
			}
			if len(ok2) > 0 {
				w.opSrvClose(c, ok2[r.intn(len(ok2))])
			}
		case x < 71: // late data for a pooled stream
			var ok2 []int
			for _, i := range pooled() {
				if w.talked[i] {
					ok2 = append(ok2, i)
				}
			}
			if len(ok2) > 0 {
				w.opSrvSend(c, ok2[r.intn(len(ok2))], 1+r.intn(200))
			}
		case x < 77: // fallback traffic
			if cl, i, ok := anyHeld(); ok && w.streams[i].IsOpen() {
				w.opWriteFb(c, cl, i, 1+r.intn(300))
				w.opFlush(c, cl, i)
				if r.chance(50) {
					m := 1 + r.intn(100)
					if w.opSrvSend(c, i, m) {
						w.opRead(c, cl, i, m)
					}
				}
			}
		case x < 84:
			w.opHeal(c)
		case x < 89:
			if cl, i, ok := anyHeld(); ok {
				w.opCloseS(c, cl, i)
			}
		case x < 93:
			if cl, i, ok := anyHeld(); ok {
				w.opRead(c, cl, i, 1+r.intn(100))
			}
		case x < 96:
			if cl, i, ok := anyHeld(); ok {
				w.opRelease(c, cl, i)
			}
		default:
			if losses < 1 && len(c.Ops) > 8 {
				losses++
				if r.chance(50) {
					w.opSessLoss(c)
				} else {
					w.opShutWin(c)
				}
			}
		}
	}
	if w.win != nil && w.fatal == "" {
		w.opEndWin(c)
	}
}

// directed histories: the patterns of §5/C15 (each must be reproduced or refuted on the real code)
func c15Directed(w *c15World, c *c15Case, which int) {
	switch which {
	case 0: // pooled stream closed by the peer is dropped without Close
		w.opGet(c, 0)
		w.opWrite(c, 0, 0, 10)
		w.opFlush(c, 0, 0)
		w.opPut(c, 0, 0)
		w.opSrvClose(c, 0)
		w.opGet(c, 0)
		w.opPut(c, 0, 1)
	case 1: // unflushed bytes of the previous holder
		w.opGet(c, 0)
		w.opWrite(c, 0, 0, 8)
		w.opFlush(c, 0, 0)
		w.opSrvSend(c, 0, 16)
		w.opRead(c, 0, 0, 16)
		w.opWrite(c, 0, 0, 5) // never flushed
		w.opPut(c, 0, 0)
		w.opGet(c, 1)
	case 2: // response that arrives after PutBack
		w.opGet(c, 0)
		w.opWrite(c, 0, 0, 8)
		w.opFlush(c, 0, 0)
		w.opPut(c, 0, 0)
		w.opSrvSend(c, 0, 16)
		w.opGet(c, 1)
	case 3: // ring wrap-around and overflow with every capacity
		for k := 0; k < w.cap+2; k++ {
			w.opGet(c, k%2)
		}
		for k := 0; k < w.cap+2; k++ {
			w.opPut(c, k%2, k)
		}
		for round := 0; round < 3; round++ {
			for k := 0; k < w.cap; k++ {
				w.opGet(c, 0)
			}
			for i := 0; i < len(w.streams); i++ {
				if _, h := w.held[i]; h {
					w.opPut(c, 0, i)
				}
			}
		}
	case 4: // unread response, fallback stream, session loss
		w.opGet(c, 0)
		w.opWrite(c, 0, 0, 8)
		w.opFlush(c, 0, 0)
		w.opSrvSend(c, 0, 16)
		w.opPut(c, 0, 0) // unread -> closed
		w.opGet(c, 0)
		w.opWriteFb(c, 0, 1, 20)
		w.opFlush(c, 0, 1)
		w.opGet(c, 1) // unhealthy
		w.opHeal(c)
		w.opPut(c, 0, 1) // fallback stream is not kept
		w.opGet(c, 0)
		w.opGet(c, 1)
		w.opPut(c, 0, 2)
		w.opSessLoss(c)
		w.opPut(c, 1, 3)
		w.opGet(c, 0)
		w.opPut(c, 0, 4)
	case 5: // the session is shut down but its streams are still open
		w.opGet(c, 0)
		w.opGet(c, 1)
		w.opPut(c, 0, 0)
		w.opShutWin(c)
		w.opGet(c, 0) // must not return the pooled stream of the dead session
		w.opPut(c, 1, 1)
		w.opGet(c, 1)
		w.opEndWin(c)
		w.opGet(c, 0)
		w.opPut(c, 0, 2)
	}
}

// ---- concurrent scenario (oracle only) -----------------------------------------------------------

func c15Concurrent(w *c15World, r *vrand, c *c15Case) {
	const G = 8
	iters := 300
	var owner sync.Map // *Stream -> *int32
	var mu sync.Mutex
	var fails []string
	addFail := func(s string) {
		mu.Lock()
		if len(fails) < 5 {
			fails = append(fails, s)
		}
		mu.Unlock()
	}
	var wg sync.WaitGroup
	seeds := make([]uint64, G)
	for g := range seeds {
		seeds[g] = r.u64()
	}
	var gets int64
	for g := 0; g < G; g++ {
		wg.Add(1)
		go func(g int) {
			defer wg.Done()
			rr := newVrand(seeds[g])
			var mine []*Stream
			for it := 0; it < iters; it++ {
				if len(mine) < 3 && rr.chance(55) {
					s, err := w.sm.GetStream()
					if err != nil {
						addFail("C15:concurrent-get-failed|" + err.Error())
						continue
					}
					atomic.AddInt64(&gets, 1)
					v, _ := owner.LoadOrStore(s, new(int32))
					if !atomic.CompareAndSwapInt32(v.(*int32), 0, 1) {
						addFail("C15:stream-handed-to-two-callers|concurrent GetStream returned a stream that another goroutine holds")
					}
					if !s.IsOpen() {
						addFail("C15:get-returned-not-open-stream|concurrent GetStream returned a stream that is not open")
					}
					mine = append(mine, s)
				} else if len(mine) > 0 {
					k := rr.intn(len(mine))
					s := mine[k]
					mine = append(mine[:k], mine[k+1:]...)
					if rr.chance(10) {
						s.Close()
					}
					v, _ := owner.Load(s)
					atomic.StoreInt32(v.(*int32), 0)
					w.sm.PutBack(s)
				}
			}
			for _, s := range mine {
				v, _ := owner.Load(s)
				atomic.StoreInt32(v.(*int32), 0)
				w.sm.PutBack(s)
			}
		}(g)
	}
	wg.Wait()
	p := w.pool()
	p.Lock()
	n := int(p.tail - p.head)
	seen := map[*Stream]bool{}
	open := 0
	for i := p.head; i < p.tail; i++ {
		s := p.streams[i%uint64(p.capacity)]
		if s == nil {
			fails = append(fails, "C15:ring-holds-nil-or-unknown-stream|nil slot inside [head,tail) after the concurrent run")
			continue
		}
		if seen[s] {
			fails = append(fails, "C15:stream-twice-in-ring|same stream twice in the ring after the concurrent run")
		}
		seen[s] = true
		if s.getStreamState() != uint32(streamClosed) {
			open++
		}
	}
	p.Unlock()
	if n > w.cap {
		fails = append(fails, fmt.Sprintf("C15:ring-bound|tail-head=%d > capacity %d after the concurrent run", n, w.cap))
	}
	if a := p.Session().GetActiveStreamCount(); a != open {
		fails = append(fails, fmt.Sprintf("C15:active-count-differs-from-held-plus-pooled|after the concurrent run nobody holds a stream, the ring keeps %d, GetActiveStreamCount=%d", open, a))
	}
	w.oracle = append(w.oracle, fails...)
	c.Note = fmt.Sprintf("goroutines=%d iters=%d gets=%d pooled_at_end=%d", G, iters, gets, n)
	w.feat["concurrent"] = true
	if p.tail > uint64(w.cap) {
		w.feat["ring-wrapped"] = true
	}
}

// one attempt at one history on a fresh world; returns the case and what stopped it ("" = nothing)
func c15RunJob(id, attempt int, kind string, cap, sub int, seed uint64, nops int) (c c15Case, fatal string) {
	c = c15Case{ID: id, Kind: kind, Cap: cap}
	defer func() {
		if e := recover(); e != nil {
			fatal = fmt.Sprintf("panic: %v", e)
		}
	}()
	w, err := c15NewWorld(id*4+attempt, cap) // fresh paths: nothing is shared with an abandoned attempt
	if err != nil {
		return c, "setup failed: " + err.Error()
	}
	defer w.close()
	switch kind {
	case "directed":
		c.Kind = fmt.Sprintf("directed-%d", sub)
		c15Directed(w, &c, sub)
	case "concurrent":
		c15Concurrent(w, newVrand(seed), &c)
	case "putrace":
		c15PutRace(w, &c)
	default:
		c15History(w, newVrand(seed), &c, nops)
	}
	c.Oracle = w.oracle
	for f := range w.feat {
		c.Feat = append(c.Feat, f)
	}
	return c, w.fatal
}

func TestVerif_C15(t *testing.T) {
	seed := uint64(venvInt("VERIF_SEED", 1))
	n := venvInt("VERIF_N", 24)
	nops := venvInt("VERIF_OPS", 40)
	out := vopenOut(t)
	defer out.close()
	type job struct {
		id   int
		kind string
		cap  int
		sub  int
		seed uint64
	}
	var jobs []job
	r := newVrand(seed)
	id := 0
	for d := 0; d < 6; d++ {
		caps := []int{2}
		if d == 3 {
			caps = []int{1, 2, 3}
		}
		for _, cp := range caps {
			jobs = append(jobs, job{id, "directed", cp, d, 0})
			id++
		}
	}
	for _, cp := range []int{1, 3} {
		jobs = append(jobs, job{id, "concurrent", cp, 0, r.u64()})
		id++
	}
	jobs = append(jobs, job{id, "putrace", 1, 0, 0})
	id++
	for k := 0; k < n; k++ {
		jobs = append(jobs, job{id, "random", 1 + r.intn(3), 0, r.u64()})
		id++
	}
	results := make([]c15Case, len(jobs))
	sem := make(chan struct{}, 8)
	var wg sync.WaitGroup
	for k, j := range jobs {
		wg.Add(1)
		sem <- struct{}{}
		go func(k int, j job) {
			defer wg.Done()
			defer func() { <-sem }()
			var expired []string
			for attempt := 0; ; attempt++ {
				c, fatal := c15RunJob(j.id, attempt, j.kind, j.cap, j.sub, j.seed, nops)
				c.Retries = attempt
				c.Expired = expired
				if fatal != "" && attempt < 2 {
					expired = append(expired, fatal)
					continue
				}
				if fatal != "" {
					// the same wait expired in three independent runs: reported by the oracle (something never
					// happens); anything else (script diverged, setup, panic) is a harness/correspondence matter
					if strings.Contains(fatal, "within the bound") {
						c.Oracle = append(c.Oracle, "C15:awaited-event-never-happens|in 3 of 3 runs of this history: "+fatal)
					} else {
						c.Note += " HARNESS: " + fatal
					}
				}
				results[k] = c
				return
			}
		}(k, j)
	}
	wg.Wait()
	for _, c := range results {
		out.emit(c)
	}
}
