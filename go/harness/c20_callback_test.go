//go:build verif

package shmipc

// C20 (+ the mechanism-S part of C10): the REAL fillDataToReadBuffer / halfClose / Close / close /
// SetCallbacks and the REAL callback goroutine (instrumented copy of /repo's current stream.go) run
// under schedules chosen here, one shared access per step, on a stream of an idle real client session.
// Every access, what every OnData invocation was offered and consumed, the final state and the
// independent property oracles are written to VERIF_OUT, one case per line.

import (
	"fmt"
	"sync/atomic"
	"testing"
	"time"
	"unsafe"
)

const (
	c20KWalk       = 8
	c20RegWalk     = -5
	c20KMark       = 7
	c20RegMark     = -4
	c20MarkData    = 1
	c20MarkClose   = 2
	c20MarkCbBegin = 10
	c20MarkCbEnd   = 11
	c20MarkCbMid   = 12 // only in the recycle-under-OnData scenario: a pause between Peek and ReadBytes
	c20MarkFlush   = 13 // a user Flush begins (WriteBytes of one byte, then Flush)
	c20MarkNotify  = 16 // asyncNotify(s.recvNotifyCh) (instrumented copy of stream.go, see props/C20.py)
	c20RegSel      = -6 // readMore's select: Lock a=1 took the recvNotifyCh token, a=2 closeNotifyCh closed; Busy: parked
	// value of streamLocalHalfClosed (the state Close() moves an open stream to while a callback goroutine
	// runs).  Kept numeric so that this harness also builds against a tree without that constant; the value
	// is pinned by the model comparison (the CAS in Close() logs it).
	c20LocalHalf = 3
)

type c20Case struct {
	ID        int         `json:"id"`
	Strat     string      `json:"strat"`
	Kind      string      `json:"kind"` // normal | late-setcb | setcb-race | exhaustive
	Cmp       bool        `json:"cmp"`  // compare with the model
	Cb0       bool        `json:"cb0"`
	Inb       [][]int     `json:"inb"` // one entry per inbound event; empty = close notification of the peer
	NCl       int         `json:"ncl"`
	Setter    bool        `json:"setter"`
	MidYield  bool        `json:"mid_yield"` // OnData pauses between Peek and ReadBytes and then checks that its view is still owned
	Script    [][2]int    `json:"script"`    // per OnData invocation: bytes to consume, number of Close() calls inside it
	Sync      []int       `json:"sync"`      // synchronous reads by the user BEFORE SetCallbacks: ReadBytes(k), k = 0: Peek
	Needs     []int       `json:"needs"`     // per OnData invocation: it starts with a blocking ReadBytes(n) (0: none); n > offered: it parks in readMore
	Picks     []bool      `json:"picks"`     // what a select takes when recvNotifyCh and closeNotifyCh are both ready (true: closeNotifyCh)
	Deadlock  bool        `json:"deadlock"`  // every remaining thread spins in a cooperative wg.Wait / is parked in readMore's select
	DeadSel   bool        `json:"dead_sel"`  // ... and one of them is an OnData invocation parked in readMore's select
	DeadWg    bool        `json:"dead_wg"`   // ... and one of them is a close() in asyncGoroutineWg.Wait
	Truncated bool        `json:"truncated"` // the driven schedule ended at the step / busy-poll bound; the remaining threads then ran to completion round robin (not recorded): not compared with the model, no step-bound finding
	ParkedOK  bool        `json:"parked_ok"` // the run ended with an OnData parked for bytes the peer never sent (legitimate)
	ReadErr   []string    `json:"read_err"`  // error class of each blocking read inside OnData that failed
	Ups       [][]int     `json:"ups"`       // user threads: each flushes these one-byte messages, one Flush per byte
	InFl      []int       `json:"infl"`      // per OnData invocation: Flush calls made inside it after its Close() calls
	Ures      [][]bool    `json:"ures"`      // per user thread (the Flushes made inside OnData last): did Flush return nil
	NData     int64       `json:"ndata"`     // data elements put on the send queue
	Steps     []vsStepRec `json:"steps"`
	Offers    [][]int     `json:"offers"`
	Consumed  []int       `json:"consumed"`
	Final     []int64     `json:"final"` // state, inproc, cstate, in table, OnLocalClose, OnRemoteClose, close elements sent
	Recv      []int       `json:"recv"`
	Pend      []int       `json:"pend"`
	Finished  bool        `json:"finished"`
	Ms        int64       `json:"ms,omitempty"` // wall time of the case (diagnosis of slow runs)
	FlushErr  string      `json:"flush_err"`    // class of the error of a Flush after the run
	Oracle    []string    `json:"oracle"`       // C20 oracle failures
	Oracle10  []string    `json:"oracle10"`     // C10 oracle failures (close semantics)
	Feat      []string    `json:"feat"`
}

// c20Walk is called (from the instrumented copy of stream.go, see props/C20.py) at the head of every iteration
// of a loop over the elements of pendingData.unread: a scheduling point in front of each element access.
func c20Walk(i int) {
	if !vs.active || vs.cur == nil {
		return
	}
	vsPre()
	vs.log = append(vs.log, vsEvent{vs.cur.id, c20KWalk, c20RegWalk, 0, int64(i), 0, 0})
}

// c20Notify replaces asyncNotify(s.recvNotifyCh) in the instrumented copy of stream.go: the token that wakes a parked
// reader is a scheduling point with an event of its own.
func c20Notify(ch chan struct{}) {
	c20Mark(c20MarkNotify)
	asyncNotify(ch)
}

var c20Picks []bool // the adversary's choices for selects that find both channels ready (current case)

// c20Select replaces readMore's select in the instrumented copy of stream.go.  Under the scheduler it is a scheduling
// point whose outcome (which channel was ready; parked) is part of the access trace; the caller runs the
// corresponding case body.  0: a token was taken from recvNotifyCh, 1: closeNotifyCh is closed, 2: the deadline.
func c20Select(rc chan struct{}, cc chan struct{}, tc <-chan time.Time) int {
	if !vs.active || vs.cur == nil {
		select {
		case <-rc:
			return 0
		case <-cc:
			return 1
		case <-tc:
			return 2
		}
	}
	for {
		if !vs.active {
			// the controlled run is over (c20Release): wait for real
			select {
			case <-rc:
				return 0
			case <-cc:
				return 1
			case <-tc:
				return 2
			}
		}
		vsPre()
		r := len(rc) > 0
		c := false
		select {
		case <-cc:
			c = true
		default:
		}
		if r && c {
			pick := false
			if len(c20Picks) > 0 {
				pick, c20Picks = c20Picks[0], c20Picks[1:]
			}
			if pick {
				r = false
			} else {
				c = false
			}
		}
		if r {
			<-rc
			vs.log = append(vs.log, vsEvent{vs.cur.id, vsKLock, c20RegSel, 0, 1, 0, 0})
			return 0
		}
		if c {
			vs.log = append(vs.log, vsEvent{vs.cur.id, vsKLock, c20RegSel, 0, 2, 0, 0})
			return 1
		}
		vs.log = append(vs.log, vsEvent{vs.cur.id, vsKBusy, c20RegSel, 0, 0, 0, 0})
	}
}

func c20Mark(code int64) {
	if !vs.active || vs.cur == nil {
		return
	}
	vsPre()
	vs.log = append(vs.log, vsEvent{vs.cur.id, c20KMark, c20RegMark, 0, code, 0, 0})
}

type c20Cb struct {
	stream      *Stream
	script      [][2]int
	next        int
	running     int
	overlap     bool
	offers      [][]int
	offerState  []uint32 // raw state when the invocation began
	offerStep   []int
	consumed    []int
	closeInside int
	syncN       int // bytes consumed synchronously before the callbacks were installed
	infl        []int
	inres       []bool
	flush       func(b byte, inside bool) bool
	closeRet    func()
	midYield    bool
	bm          *bufferManager
	offs        *[]uint32 // shared-memory offsets of the arrivals, in order
	viewFreed   bool      // a buffer whose bytes OnData was holding was back on the free list
	local       int
	remote      int
	step        *int
	needs       []int
	readErr     []string // error class of each blocking read that failed
	took        []int    // bytes consumed by each finished invocation
	limit       int      // bytes that arrive in this case: nothing longer can legitimately be offered
	overrun     int      // largest r.Len() seen beyond the limit (0: none)
}

// c20See bounds what one invocation looks at: a mutated tree can link the whole free list into recvBuf (megabytes);
// one byte more than ever arrived is enough for every oracle and for the comparison with the model, and keeps the
// case (copying, JSON, the Coq evaluation) small.
func (cb *c20Cb) c20See(n int) int {
	if n > cb.limit {
		if n > cb.overrun {
			cb.overrun = n
		}
		return cb.limit + 1
	}
	return n
}

func (cb *c20Cb) OnData(r BufferReader) {
	c20Mark(c20MarkCbBegin)
	before := len(cb.consumed)
	defer func() { cb.took = append(cb.took, len(cb.consumed)-before) }()
	cb.running++
	if cb.running > 1 {
		cb.overlap = true
	}
	n := cb.c20See(r.Len())
	seen := []int{}
	if n > 0 {
		p, _ := r.Peek(n)
		for _, b := range p {
			seen = append(seen, int(b))
		}
	}
	cb.offers = append(cb.offers, seen)
	cb.offerState = append(cb.offerState, atomic.LoadUint32(&cb.stream.state))
	cb.offerStep = append(cb.offerStep, *cb.step)
	if cb.midYield && n > 0 {
		// OnData holds the zero-copy view returned by Peek and has released nothing; let the others run
		c20Mark(c20MarkCbMid)
		if cb.offs != nil && len(*cb.offs) > 0 {
			off := (*cb.offs)[0] // the first arrival is (part of) what was offered and nothing was consumed yet
			if !bufferHeader(cb.bm.mem[off : off+bufferHeaderSize]).isInUsed() {
				cb.viewFreed = true
			}
		}
		n = cb.c20See(r.Len())
	}
	k, cl := n, 0
	if cb.next < len(cb.script) {
		k, cl = cb.script[cb.next][0], cb.script[cb.next][1]
		cb.next++
	}
	if k > n {
		k = n
	}
	if idx := len(cb.offers) - 1; idx < len(cb.needs) && cb.needs[idx] > n && cb.overrun == 0 {
		// the invocation starts with a blocking read of more than it was offered (a length-prefixed message whose
		// body has not arrived yet): ReadBytes -> readMore parks on recvNotifyCh / closeNotifyCh
		k = 0
		b, err := r.ReadBytes(cb.needs[idx])
		if err != nil {
			cb.readErr = append(cb.readErr, c20ErrClass(err))
		} else {
			for _, x := range b {
				cb.consumed = append(cb.consumed, int(x))
			}
			r.ReleasePreviousRead()
		}
	}
	if k > 0 {
		b, _ := r.ReadBytes(k)
		for _, x := range b {
			cb.consumed = append(cb.consumed, int(x))
		}
		r.ReleasePreviousRead()
	}
	if cb.overrun > 0 && k == n {
		// "everything": drop the rest without copying it (the case has failed already)
		_, _ = r.Discard(r.Len())
		r.ReleasePreviousRead()
	}
	for i := 0; i < cl; i++ {
		cb.closeInside++
		cb.stream.Close()
		cb.closeRet()
	}
	if idx := len(cb.offers) - 1; idx < len(cb.infl) {
		for i := 0; i < cb.infl[idx]; i++ {
			cb.inres = append(cb.inres, cb.flush(9, true))
		}
	}
	c20Mark(c20MarkCbEnd)
	cb.running--
}
func (cb *c20Cb) OnLocalClose()  { cb.local++ }
func (cb *c20Cb) OnRemoteClose() { cb.remote++ }

type c20Env struct {
	client, server *Session
	offs           []uint32 // offsets of the arrivals of the current case
}

func c20NewEnv() *c20Env {
	conf := testConf()
	conf.QueueCap = 4096
	conf.InitializeTimeout = 30 * time.Second // the default 1 s handshake bound is too short on a loaded machine
	c, s := newClientServerWithNoCheck(conf)
	// the client's send queue is replaced by a private one that nobody consumes: what the stream under test sends
	// (data and close elements) is counted here and never reaches the peer session, whose event loop therefore
	// never runs instrumented stream code concurrently with the scheduler
	priv := createQueueFromBytes(make([]byte, queueHeaderLength+8192*queueElementLen), 8192)
	c.queueManager.sendQueue = priv
	return &c20Env{client: c, server: s}
}
func (e *c20Env) close() {
	e.client.Close()
	e.server.Close()
}

// after a failed case the shared memory of the pair may be damaged (a double recycle, a chain linked into the free
// list): the following cases get a fresh pair, so that one defect is not reported again as unrelated failures
func (e *c20Env) renewAfter(c c20Case) {
	if len(c.Oracle) > 0 || len(c.Oracle10) > 0 || (!c.Finished && !c.ParkedOK && !c.Truncated) {
		e.close()
		// the sessions' own goroutines close what is left in their tables: let them finish before the next case
		// starts (instrumented stream.go code must not run beside the scheduler)
		time.Sleep(50 * time.Millisecond)
		*e = *c20NewEnv()
	}
}

// the payload of an arrival: a slice of the session's shared memory, written as the peer's Flush would
// (buffer_manager.go is not instrumented here, so moveTo/recycle run inside one scheduler step)
func c20Wrapper(env *c20Env, data []int) bufferSliceWrapper {
	b := make([]byte, len(data))
	for i, x := range data {
		b[i] = byte(x)
	}
	sl, err := env.client.bufferManager.allocShmBuffer(uint32(len(b)))
	if err != nil {
		panic(err)
	}
	sl.append(b...)
	sl.update()
	env.offs = append(env.offs, sl.offsetInShm)
	return bufferSliceWrapper{offset: sl.offsetInShm}
}

func c20ErrClass(err error) string {
	switch err {
	case nil:
		return "nil"
	case ErrStreamClosed:
		return "ErrStreamClosed"
	case ErrEndOfStream:
		return "ErrEndOfStream"
	case ErrTimeout:
		return "ErrTimeout"
	}
	return "other:" + err.Error()
}

// c20Run executes one configuration under the schedule produced by mk and fills in the observations
// and both oracles.
func c20Run(env *c20Env, c c20Case, mk func() vsChooser, maxSteps int) c20Case {
	vsReset()
	s, err := env.client.OpenStream()
	if err != nil {
		panic(err)
	}
	id := s.id
	stepNo := 0
	env.offs = nil
	cb := &c20Cb{stream: s, script: c.Script, step: &stepNo, midYield: c.MidYield, bm: env.client.bufferManager, offs: &env.offs, needs: c.Needs}
	c20Picks = append([]bool{}, c.Picks...)
	for _, e := range c.Inb {
		cb.limit += len(e)
	}
	if c.Cb0 {
		if err := s.SetCallbacks(cb); err != nil {
			panic(err)
		}
		// SetCallbacks may start a (here still uncontrolled) goroutine that finds nothing to offer: let it
		// finish before the controlled run begins (the model's `init true` is the state after it)
		s.asyncGoroutineWg.Wait()
	}
	vsAddRegion(unsafe.Pointer(&s.state), 4)
	vsAddRegion(unsafe.Pointer(&s.callbackInProcess), 4)
	vsAddRegion(unsafe.Pointer(&s.callbackCloseState), 4)
	for { // start from an empty private send queue
		if _, err := env.client.queueManager.sendQueue.pop(); err != nil {
			break
		}
	}
	firstCloseRet := -1 // step during which the first Close() returned
	var flushLog []struct {
		step int
		ok   bool
		cls  string
	}
	cb.closeRet = func() {
		if firstCloseRet < 0 {
			firstCloseRet = stepNo
		}
	}
	cb.infl = c.InFl
	cb.flush = func(b byte, inside bool) bool {
		c20Mark(c20MarkFlush)
		at := stepNo
		_, _ = s.BufferWriter().WriteBytes([]byte{b})
		err := s.Flush(false)
		flushLog = append(flushLog, struct {
			step int
			ok   bool
			cls  string
		}{at, err == nil, c20ErrClass(err)})
		return err == nil
	}
	vs.active = true
	// thread 0: the event loop
	vsSpawn(func() {
		for _, e := range c.Inb {
			if len(e) > 0 {
				c20Mark(c20MarkData)
				if st := env.client.getStream(id, streamOpened); st != nil {
					_ = env.client.handleStreamMessage(st, c20Wrapper(env, e), streamOpened)
				}
			} else {
				c20Mark(c20MarkClose)
				if st := env.client.getStream(id, streamClosed); st != nil {
					_ = env.client.handleStreamMessage(st, bufferSliceWrapper{}, streamClosed)
				}
			}
		}
	})
	closeRet := make([]bool, c.NCl)
	for i := 0; i < c.NCl; i++ {
		i := i
		vsSpawn(func() {
			_ = s.Close()
			closeRet[i] = true
			cb.closeRet()
		})
	}
	// the user: synchronous reads (before the callbacks are installed), then SetCallbacks — ONE goroutine, as in
	// "accept the stream, look at the head of the message, then switch to callbacks"
	syncReads := func() {
		for _, k := range c.Sync {
			if s.getCallbacks() != nil {
				return // callbacks installed: the user no longer reads synchronously
			}
			// (no lock here: the pendingData mutex is cooperative under the scheduler, and exactly one controlled
			// thread runs at a time)
			avail := s.recvBuf.Len()
			for _, w := range s.pendingData.unread {
				if sl, err := env.client.bufferManager.readBufferSlice(w.offset); err == nil {
					avail += sl.size()
				}
			}
			// Peek(size)/ReadBytes(size) call readMore — whose first action is pendingData.moveTo(recvBuf) — only if
			// recvBuf holds less than size; size = what is asked for, at least 1, at most what has arrived (a real
			// read of more would block).  The moveTo is done here explicitly, the read itself then never blocks.
			need := k
			if need > avail {
				need = avail
			}
			if need < 1 {
				need = 1
			}
			if s.recvBuf.Len() < need {
				s.pendingData.moveTo(s.recvBuf)
			}
			kk := k
			if kk > s.recvBuf.Len() {
				kk = s.recvBuf.Len()
			}
			if kk > 0 {
				b, _ := s.BufferReader().ReadBytes(kk)
				for _, x := range b {
					cb.consumed = append(cb.consumed, int(x))
				}
				cb.syncN += len(b)
				s.BufferReader().ReleasePreviousRead()
			}
		}
	}
	if c.Setter {
		vsSpawn(func() {
			syncReads()
			// the explicit scheduling point separates installing the callbacks from the CAS on callbackInProcess
			vsPre()
			_ = s.SetCallbacks(cb)
		})
	} else if len(c.Sync) > 0 {
		vsSpawn(syncReads)
	}
	ures := make([][]bool, len(c.Ups))
	for u := range c.Ups {
		u := u
		vsSpawn(func() {
			for _, b := range c.Ups[u] {
				ures[u] = append(ures[u], cb.flush(byte(b), false))
			}
		})
	}
	base := len(vs.threads)
	var states []uint32
	// stop driving once nothing but blocked wg.Wait polls has happened for a while (a deadlock of the code under test)
	inner := mk()
	busyRun := 0
	choose := func(al []int, all int, last int, lastEv *vsEvent) int {
		if lastEv != nil && lastEv.Kind == vsKBusy {
			busyRun++
		} else if lastEv != nil {
			busyRun = 0
		}
		if busyRun >= 12*len(al)+12 {
			return -1
		}
		return inner(al, all, last, lastEv)
	}
	steps, finished := vsDrive(nil, choose, maxSteps, func(i int, rec vsStepRec) {
		stepNo = i + 1
		states = append(states, atomic.LoadUint32(&s.state))
	})
	if !finished {
		// deadlock: every live thread's latest step found wg.Wait busy — do not spin on them
		dead := true
		lastOf := map[int]*vsEvent{}
		for _, st := range steps {
			if st.Ev != nil {
				ev := *st.Ev
				lastOf[st.Tid] = &ev
			}
		}
		for _, a := range vsAlive(vs.threads) {
			e := lastOf[a]
			if e == nil || e.Kind != vsKBusy {
				dead = false
			} else if e.Reg == c20RegSel {
				c.DeadSel = true
			} else if e.Reg == -3 {
				c.DeadWg = true
			}
		}
		c.Deadlock = dead
		if !dead {
			c.DeadSel, c.DeadWg = false, false
		}
		if !dead {
			c20Finish(20000) // bounded: a run that does not end is a finding, not something to wait for
			if len(vsAlive(vs.threads)) == 0 {
				// only the driven prefix was cut (step bound of the family, or a long run of busy polls): every thread
				// finished under the generous bound.  The recorded steps are a prefix: no comparison with the model.
				c.Truncated = true
				c.Cmp = false
			}
		}
	}
	vs.active = false
	c.Steps = steps
	c.Finished = finished
	c.ReadErr = cb.readErr
	c.Offers = cb.offers
	if c.Offers == nil {
		c.Offers = [][]int{}
	}
	c.Consumed = append([]int{}, cb.consumed...)
	inTable := int64(0)
	if env.client.getStreamById(id) != nil {
		inTable = 1
	}
	// what the stream put on the (private) send queue: close elements and data elements.  (The payload is real
	// shared memory, so the stream never enters fallback state and everything travels through the queue.)
	nsent, ndata := int64(0), int64(0)
	for {
		e, err := env.client.queueManager.sendQueue.pop()
		if err != nil {
			break
		}
		if e.status&0xff == uint32(streamClosed) {
			nsent++
		} else {
			ndata++
			if sl, err := env.client.bufferManager.readBufferSlice(e.offsetInShmBuf); err == nil {
				env.client.bufferManager.recycleBuffers(sl)
			}
		}
	}
	c.NData = ndata
	c.Ures = ures
	if len(c.InFl) > 0 {
		c.Ures = append(c.Ures, cb.inres)
	}
	for i := range c.Ures {
		if c.Ures[i] == nil {
			c.Ures[i] = []bool{}
		}
	}
	if env.server.IsClosed() || env.client.IsClosed() {
		c.Feat = append(c.Feat, fmt.Sprintf("SESSION-DOWN(server closed=%v, client closed=%v)", env.server.IsClosed(), env.client.IsClosed()))
	}
	c.Final = []int64{int64(atomic.LoadUint32(&s.state)), int64(atomic.LoadUint32(&s.callbackInProcess)),
		int64(atomic.LoadUint32(&s.callbackCloseState)), inTable, int64(cb.local), int64(cb.remote), nsent, ndata, 0}
	select {
	case <-s.closeNotifyCh:
		c.Final[8] = 1 // closeNotifyCh is closed: calls pending on the stream have been woken
	default:
	}
	c.Recv = []int{}
	if n := cb.c20See(s.recvBuf.Len()); n > 0 {
		p, _ := s.recvBuf.Peek(n)
		for _, b := range p {
			c.Recv = append(c.Recv, int(b))
		}
	}
	c.Pend = []int{}
	for _, w := range s.pendingData.unread {
		if sl, err := env.client.bufferManager.readBufferSlice(w.offset); err == nil && len(c.Pend) <= cb.limit {
			for _, b := range sl.data[sl.readIndex:sl.writeIndex] {
				if len(c.Pend) <= cb.limit {
					c.Pend = append(c.Pend, int(b))
				}
			}
		}
	}
	// a Flush after the run (uncontrolled): error class
	finalState := uint32(c.Final[0])
	c.FlushErr = "not-probed(open)"
	if finalState != uint32(streamOpened) {
		// (on an open stream the Flush would really send: not part of this harness)
		_, _ = s.BufferWriter().WriteBytes([]byte{9})
		c.FlushErr = c20ErrClass(s.Flush(false))
	}

	// ---------------- C20 oracle (independent of the model) ----------------
	or := map[string]bool{}
	// an OnData parked for bytes the peer never sent is legitimate: the stream is open, everything that arrived has
	// been handed to it (pendingData empty, no token left), and only it is still alive
	c.ParkedOK = c.Deadlock && c.DeadSel && !c.DeadWg && finalState == uint32(streamOpened) && len(c.Pend) == 0 &&
		len(s.recvNotifyCh) == 0 && c.Final[8] == 0
	if !finished && !c.ParkedOK && !c.Truncated {
		if c.Deadlock && c.DeadSel && !c.DeadWg {
			or[fmt.Sprintf("no-strand: an OnData invocation stays parked in a blocking read (readMore) although it would be resumable: %d byte(s) that arrived since sit in pendingData, token in recvNotifyCh: %d, closeNotifyCh closed: %d, state %d — nothing will ever wake it (callbackInProcess = 1, no goroutine will be started for the stream)", len(c.Pend), len(s.recvNotifyCh), c.Final[8], finalState)] = true
		} else if !c.Deadlock || !c.DeadWg {
			or["run did not reach quiescence within the step bound"] = true
		}
	}
	if cb.viewFreed {
		or["zero-copy: a buffer whose bytes OnData was still holding (Peek, nothing released) was returned to the free list by the event loop's closed path (fillDataToReadBuffer: recvBuf.recycle) while OnData was running"] = true
	}
	if cb.overlap {
		or["serial: OnData began while another OnData of the same stream was running"] = true
	}
	// bytes of the data events the event loop processed (used only when the stream did not end closed:
	// the table entry is removed only after the state is closed, so every processed event was added)
	var arrived []int
	{
		evIdx := 0
		for _, st := range steps {
			if st.Tid == 0 && st.Ev != nil && st.Ev.Kind == c20KMark && (st.Ev.A == c20MarkData || st.Ev.A == c20MarkClose) {
				if st.Ev.A == c20MarkData && evIdx < len(c.Inb) {
					arrived = append(arrived, c.Inb[evIdx]...)
				}
				evIdx++
			}
		}
	}
	isPrefix := func(a, b []int) bool {
		if len(a) > len(b) {
			return false
		}
		for i := range a {
			if a[i] != b[i] {
				return false
			}
		}
		return true
	}
	var allIn []int
	for _, e := range c.Inb {
		allIn = append(allIn, e...)
	}
	if cb.overrun > 0 {
		or[fmt.Sprintf("order/once: recvBuf held %d bytes although only %d ever arrived", cb.overrun, cb.limit)] = true
	}
	if !isPrefix(c.Consumed, allIn) {
		or["order/once: the bytes consumed by OnData are not a prefix of the bytes that arrived"] = true
	}
	// each invocation is offered a contiguous run of the arrival stream starting at what was consumed before
	consumedBefore := cb.syncN
	for k, off := range cb.offers {
		if cb.offerState[k] != uint32(streamClosed) {
			if consumedBefore > len(allIn) || !isPrefix(off, allIn[consumedBefore:]) {
				or["order/once: an OnData invocation was offered bytes that are not the next bytes of the arrival stream"] = true
			}
		}
		// how much did this invocation consume
		kk := 0
		if k < len(cb.took) {
			kk = cb.took[k]
		}
		consumedBefore += kk
	}
	closeIssued := c.NCl > 0 || cb.closeInside > 0
	if finished && finalState != uint32(streamClosed) {
		// nothing may have been dropped before the stream is closed
		rest := append(append(append([]int{}, c.Consumed...), c.Recv...), c.Pend...)
		if len(rest) != len(arrived) || !isPrefix(rest, arrived) {
			or["order/once: consumed ++ recvBuf ++ pending differs from what arrived although the stream is not closed"] = true
		}
	}
	if finished && finalState == uint32(streamOpened) && !closeIssued {
		if len(c.Pend) > 0 {
			or["no-strand: data left in pendingData at quiescence with the stream open"] = true
		}
		if len(c.Recv) > 0 {
			or["no-strand: unread data left in recvBuf at quiescence with the stream open and no OnData running"] = true
		}
	}
	// stop: every OnData begins right after an IsOpen() load of this thread that returned opened, and at
	// most one begins after the raw state left opened
	lastEv := map[int]*vsEvent{}
	leftOpen := -1
	for i, x := range states {
		if x != uint32(streamOpened) {
			leftOpen = i
			break
		}
	}
	late := 0
	for i, st := range steps {
		if st.Ev == nil {
			continue
		}
		if st.Ev.Kind == c20KMark && st.Ev.A == c20MarkCbBegin {
			p := lastEv[st.Tid]
			if p == nil || p.Kind != vsKR || p.Reg != 0 || p.A != int64(streamOpened) {
				or["stop: OnData began without a preceding IsOpen() load that returned opened"] = true
			}
			if leftOpen >= 0 && i > leftOpen {
				late++
			}
		}
		ev := *st.Ev
		lastEv[st.Tid] = &ev
	}
	if late > 1 {
		or["stop: more than one OnData began after the state had left opened"] = true
	}
	for k := range or {
		c.Oracle = append(c.Oracle, k)
	}

	// ---------------- C10 oracle on the same run ----------------
	o10 := map[string]bool{}
	prev := uint32(streamOpened)
	for _, x := range states {
		if x != prev {
			ok := (prev == uint32(streamOpened) && (x == uint32(streamHalfClosed) || x == c20LocalHalf || x == uint32(streamClosed))) ||
				((prev == uint32(streamHalfClosed) || prev == c20LocalHalf) && x == uint32(streamClosed))
			if !ok {
				o10[fmt.Sprintf("monotone: state moved from %d to %d", prev, x)] = true
			}
			prev = x
		}
	}
	for _, f := range flushLog {
		if firstCloseRet >= 0 && f.step > firstCloseRet {
			if f.ok {
				o10["SIG:C10:Flush-after-a-returned-Close-succeeds|finality: a Flush issued after a Close() had returned returned nil and its bytes were queued for the peer (state then: one of the non-open states)"] = true
			} else if f.cls != "ErrStreamClosed" {
				o10["finality: a Flush issued after a Close() had returned failed with "+f.cls+" instead of ErrStreamClosed"] = true
			}
		}
	}
	if finished && finalState == uint32(streamClosed) && inTable == 0 && (len(c.Recv) > 0 || len(c.Pend) > 0) {
		o10["SIG:C10:late-arrival-moved-into-recvBuf-after-clean-is-never-recycled|residue: the stream is closed, cleaned and out of the table, yet recvBuf / pendingData still hold received bytes (their share-memory slices are never recycled)"] = true
	}
	if finished && finalState != uint32(streamOpened) && c.Final[8] == 0 {
		o10["SIG:C10:close-does-not-wake-pending-calls|wake: the stream has left `opened` and every thread has finished, but closeNotifyCh is not closed: calls pending on the stream (a read parked in readMore, a Flush in its queue-full retry loop) are never woken and never fail"] = true
	}
	if c.Deadlock && c.DeadWg && c.DeadSel {
		o10["SIG:C10:close-does-not-wake-pending-calls|a Close() never returned: close() waits for the callback goroutine, whose OnData is parked in a read that only closeNotifyCh would wake"] = true
	}
	if c.Deadlock && c.DeadWg && !c.DeadSel {
		o10["SIG:C10:Close-inside-OnData-waits-for-its-own-goroutine|a Close() never returned: close() waits on asyncGoroutineWg, which only the waiting thread(s) can release; the stream stays in the table, no close callback, peer not told"] = true
	}
	if cb.local+cb.remote > 1 {
		o10["callbacks: more than one of OnLocalClose/OnRemoteClose was delivered"] = true
	}
	if closeIssued && finished && !c.Setter {
		// classify by what the trace shows
		halfByGor, halfByCloser, casLost, remoteHalf := false, false, false, false
		for _, st := range steps {
			if st.Ev != nil && st.Ev.Kind == vsKCAS && st.Ev.Reg == 0 {
				if st.Ev.A == int64(streamOpened) && (st.Ev.B == int64(streamHalfClosed) || st.Ev.B == c20LocalHalf) && st.Ev.C == 1 {
					switch {
					case st.Tid == 0:
						remoteHalf = true // the peer's close notification won
					case st.Tid >= base:
						halfByGor = true
					default:
						halfByCloser = true
					}
				}
				if st.Ev.B == int64(streamClosed) && st.Ev.C == 0 {
					casLost = true
				}
			}
		}
		var bad []string
		if finalState != uint32(streamClosed) {
			bad = append(bad, "state not closed")
		}
		if inTable == 1 {
			bad = append(bad, "still in the session table")
		}
		if c.Cb0 && cb.local+cb.remote != 1 {
			bad = append(bad, fmt.Sprintf("%d close callbacks", cb.local+cb.remote))
		}
		if !(remoteHalf || nsent == 1) || (remoteHalf && nsent != 0) || nsent > 1 {
			bad = append(bad, fmt.Sprintf("peer notification: %d close elements sent, peer-closed-first=%v", nsent, remoteHalf))
		}
		if c.Cb0 && ((cb.local == 1) != (nsent == 1) || (cb.remote == 1) != remoteHalf) {
			bad = append(bad, "callbacks do not match what happened")
		}
		if c.FlushErr != "ErrStreamClosed" {
			bad = append(bad, "Flush after Close returned "+c.FlushErr)
		}
		if len(bad) > 0 {
			what := fmt.Sprintf("%v", bad)
			switch {
			case halfByGor:
				o10["SIG:C10:Close-inside-OnData-no-peer-notification-no-OnLocalClose|"+what] = true
			case halfByCloser:
				o10["SIG:C10:Close-while-OnData-runs-no-peer-notification-no-OnLocalClose|"+what] = true
			case casLost:
				o10["SIG:C10:close-loses-state-CAS-returns-nil-stream-not-closed|"+what] = true
			default:
				o10["after Close at quiescence: "+what] = true
			}
		}
	}
	for k := range o10 {
		c.Oracle10 = append(c.Oracle10, k)
	}
	// ---------------- features ----------------
	if len(vs.threads) > base+1 {
		c.Feat = append(c.Feat, "second-goroutine")
	}
	for _, st := range steps {
		if st.Ev != nil && st.Ev.Kind == vsKCAS && st.Ev.Reg == 1 && st.Ev.C == 0 {
			c.Feat = append(c.Feat, "flag-cas-lost")
			break
		}
	}
	for _, st := range steps {
		if st.Ev != nil && st.Ev.Kind == vsKCAS && st.Ev.Reg == 1 && st.Ev.C == 1 && st.Tid >= base {
			c.Feat = append(c.Feat, "goroutine-retakes-flag")
			break
		}
	}
	if cb.closeInside > 0 {
		c.Feat = append(c.Feat, "close-inside-OnData")
	}
	if c.NCl > 0 {
		c.Feat = append(c.Feat, "closer")
	}
	for _, e := range c.Inb {
		if len(e) == 0 {
			c.Feat = append(c.Feat, "peer-close")
			break
		}
	}
	for _, st := range steps {
		if st.Ev != nil && st.Ev.Kind == vsKBusy && st.Ev.Reg != c20RegSel {
			c.Feat = append(c.Feat, "wg-wait-blocked")
			break
		}
	}
	selSeen := map[string]bool{}
	for _, st := range steps {
		if st.Ev != nil && st.Ev.Reg == c20RegSel {
			f := "OnData-parked-in-read"
			if st.Ev.Kind == vsKLock && st.Ev.A == 1 {
				f = "parked-read-resumed-by-token"
			} else if st.Ev.Kind == vsKLock {
				f = "parked-read-woken-by-close"
			}
			if !selSeen[f] {
				selSeen[f] = true
				c.Feat = append(c.Feat, f)
			}
		}
	}
	if c.ParkedOK {
		c.Feat = append(c.Feat, "parked-for-bytes-the-peer-never-sent")
	}
	// leave the stream closed and clean (uncontrolled)
	_ = s.Close()
	if c.DeadSel {
		c20Release(steps)
	}
	return c
}

// c20Finish runs the remaining threads round robin for at most n more steps (threads that still have not finished
// stay parked on their grant channel for good: harmless).
func c20Finish(n int) {
	for guard := 0; guard < n; guard++ {
		a := vsAlive(vs.threads)
		if len(a) == 0 {
			return
		}
		vsStep(vs.threads[a[guard%len(a)]])
	}
}

// c20Release lets the threads that the run left parked in readMore's select (their last step found nothing ready)
// continue WITHOUT the scheduler, after the stream has been closed: the close wakes them, OnData returns, the
// goroutine finishes.  Nothing instrumented may still be running when the next case starts (it would take
// scheduling points of that case).  Threads blocked in a cooperative wg.Wait are not released (they would spin).
func c20Release(steps []vsStepRec) {
	lastOf := map[int]*vsEvent{}
	for _, st := range steps {
		if st.Ev != nil {
			ev := *st.Ev
			lastOf[st.Tid] = &ev
		}
	}
	for _, a := range vsAlive(vs.threads) {
		if e := lastOf[a]; e != nil && e.Kind == vsKBusy && e.Reg == c20RegSel {
			t := vs.threads[a]
			select {
			case t.grant <- struct{}{}:
				select {
				case <-vs.back: // the thread ran to its end
				case <-time.After(2 * time.Second):
				}
			case <-time.After(200 * time.Millisecond):
			}
		}
	}
}

// c20Budget stops a family early once enough of its cases have failed: the check has its concrete failing inputs,
// more of the same only costs time (a mutated tree can make every case run into the step bound).
type c20Budget struct{ bad, limit int }

func (b *c20Budget) note(c c20Case) {
	if len(c.Oracle) > 0 || len(c.Oracle10) > 0 || (!c.Finished && !c.ParkedOK && !c.Truncated) {
		b.bad++
	}
}
func (b *c20Budget) spent() bool { return b.bad >= b.limit }

// a chooser that follows a fixed prefix of thread ids and then runs the remaining threads lowest id first
func c20PrefixChooser(prefix []int) vsChooser {
	i := 0
	return func(al []int, all int, last int, lastEv *vsEvent) int {
		for i < len(prefix) {
			t := prefix[i]
			i++
			if t < all {
				return t
			}
		}
		// avoid spinning on a blocked wg.Wait
		if lastEv != nil && lastEv.Kind == vsKBusy && len(al) > 1 {
			for _, a := range al {
				if a != last {
					return a
				}
			}
		}
		return al[0]
	}
}

// the event loop runs until thread g exists (the goroutine it spawns), g runs until it is parked in readMore's
// select, then the remaining threads run lowest id first (a parked / waiting thread is not polled while another can run)
func c20ParkFirstChooser(g int) vsChooser {
	parked := false
	return func(al []int, all int, last int, lastEv *vsEvent) int {
		alive := func(t int) bool {
			for _, a := range al {
				if a == t {
					return true
				}
			}
			return false
		}
		if !parked {
			if last == g && lastEv != nil && lastEv.Kind == vsKBusy && lastEv.Reg == c20RegSel {
				parked = true
			} else if all > g && alive(g) {
				return g
			} else if all <= g && alive(0) {
				return 0
			}
		}
		if lastEv != nil && lastEv.Kind == vsKBusy && len(al) > 1 {
			for _, a := range al {
				if a != last {
					return a
				}
			}
		}
		return al[0]
	}
}

// run the given threads to completion one after the other, then hand over to inner
func c20PhaseChooser(first []int, inner vsChooser) vsChooser {
	return func(al []int, all int, last int, lastEv *vsEvent) int {
		for _, t := range first {
			for _, a := range al {
				if a == t {
					return t
				}
			}
		}
		return inner(al, all, last, lastEv)
	}
}

// odometer chooser for exhaustive enumeration: path[d] = index into the alive set at depth d
type c20Odo struct {
	path   []int
	widths []int
}

func (o *c20Odo) chooser() vsChooser {
	d := 0
	o.widths = o.widths[:0]
	return func(al []int, all int, last int, lastEv *vsEvent) int {
		// a thread whose step just found the mutex / the wait group / the select busy finds it busy again until another
		// thread has moved: polling it again is a no-op (in the model as in the code), not a different schedule
		if lastEv != nil && lastEv.Kind == vsKBusy && len(al) > 1 {
			rest := make([]int, 0, len(al))
			for _, a := range al {
				if a != last {
					rest = append(rest, a)
				}
			}
			al = rest
		}
		k := 0
		if d < len(o.path) {
			k = o.path[d]
		}
		if k >= len(al) {
			k = len(al) - 1
		}
		o.widths = append(o.widths, len(al))
		d++
		return al[k]
	}
}

// advance to the next path; false when the enumeration is complete
func (o *c20Odo) next() bool {
	p := make([]int, len(o.widths))
	copy(p, o.path)
	for d := len(o.widths) - 1; d >= 0; d-- {
		if p[d]+1 < o.widths[d] {
			p[d]++
			o.path = p[:d+1]
			return true
		}
	}
	return false
}

func c20GenInb(r *vrand, narr int, peerClosePct int) [][]int {
	var inb [][]int
	b := 1
	closeAt := -1
	if r.chance(peerClosePct) {
		closeAt = r.intn(narr + 1)
	}
	for i := 0; i < narr; i++ {
		if i == closeAt {
			inb = append(inb, []int{})
		}
		n := 1 + r.intn(4)
		if r.chance(10) {
			n = 9
		}
		var m []int
		for k := 0; k < n; k++ {
			m = append(m, b)
			b++
		}
		inb = append(inb, m)
	}
	if closeAt == narr {
		inb = append(inb, []int{})
	}
	return inb
}

func c20GenScript(r *vrand, closeInsidePct int) [][2]int {
	var sc [][2]int
	n := r.intn(5)
	zeros := 0
	closed := false
	for i := 0; i < n; i++ {
		k := []int{0, 1, 1, 2, 3, 100}[r.intn(6)]
		if k == 0 {
			zeros++
			if zeros > 2 {
				k = 1
			}
		}
		cl := 0
		if !closed && r.chance(closeInsidePct) {
			cl = 1
			if r.chance(35) {
				cl = 2 // Close() repeated inside the same OnData
			}
			closed = true
		}
		sc = append(sc, [2]int{k, cl})
	}
	return sc
}

// user Flush threads, and Flush calls inside the OnData invocations that call Close()
func c20GenFlushes(r *vrand, c *c20Case, pct int) {
	// (a stream has ONE writer: sendBuf is not shared between goroutines — either a user thread flushes, or the
	// OnData invocations do, never both in one case)
	inside := false
	for i, e := range c.Script {
		if e[1] > 0 && r.chance(60) {
			for len(c.InFl) <= i {
				c.InFl = append(c.InFl, 0)
			}
			c.InFl[i] = 1 + r.intn(2)
			inside = true
		}
	}
	if !inside && r.chance(pct) {
		c.Ups = [][]int{{9}}
		if r.chance(40) {
			c.Ups[0] = []int{9, 8}
		}
	}
}

func c20Strategy(r *vrand, id int, nthreads int) (string, func() vsChooser) {
	switch id % 4 {
	case 0:
		return "uniform", func() vsChooser { return vsRandomChooser(r, 0, 2) }
	case 1:
		return "sticky", func() vsChooser { return vsRandomChooser(r, 80, 2) }
	default:
		x := r.intn(nthreads + 2)
		k := r.intn(12)
		return fmt.Sprintf("preempt(t%d@%d)", x, k), func() vsChooser { return vsPreemptChooser(r, x, k) }
	}
}

func TestVerif_C20(t *testing.T) {
	seed := uint64(venvInt("VERIF_SEED", 1))
	n := venvInt("VERIF_N", 300)
	exhMax := venvInt("VERIF_EXH", 3000)
	o := vopenOut(t)
	defer o.close()
	env := c20NewEnv()
	defer env.close()
	r := newVrand(seed)
	id := 0
	budget := &c20Budget{limit: 40}
	run := func(c c20Case, mk func() vsChooser, max int) {
		if budget.spent() {
			return
		}
		t0 := time.Now()
		res := c20Run(env, c, mk, max)
		res.Ms = time.Since(t0).Milliseconds()
		budget.note(res)
		env.renewAfter(res)
		o.emit(res)
	}
	// ---- random configurations, three schedule strategies ----
	for ; id < n; id++ {
		c := c20Case{ID: id, Kind: "normal", Cmp: true, Cb0: true}
		c.Inb = c20GenInb(r, 1+r.intn(4), 20)
		switch r.intn(10) {
		case 0, 1, 2:
			c.NCl = 1
		case 3:
			c.NCl = 2
		}
		c.Script = c20GenScript(r, 8)
		c20GenFlushes(r, &c, 25)
		strat, mk := c20Strategy(r, id, 1+c.NCl+len(c.Ups))
		c.Strat = strat
		run(c, mk, 3000)
	}
	// ---- systematic single pre-emption for fixed small configurations ----
	sys := 0
	for _, cfg := range []c20Case{
		{Kind: "normal", Cb0: true, Inb: [][]int{{1, 2}, {3}}, Script: [][2]int{{1, 0}}},
		{Kind: "normal", Cb0: true, Inb: [][]int{{1}, {2, 3}, {4}}, Script: [][2]int{{100, 0}, {1, 0}}},
		{Kind: "normal", Cb0: true, Inb: [][]int{{1, 2}, {3}}, NCl: 1, Script: [][2]int{{1, 0}}},
		{Kind: "normal", Cb0: true, Inb: [][]int{{1, 2}, {}, {3}}, Script: [][2]int{{1, 0}}},
	} {
		nt := 1 + cfg.NCl + 2
		for x := 0; x < nt; x++ {
			for k := 0; k <= 11; k++ {
				c := cfg
				c.ID, c.Cmp = id, true
				c.Strat = fmt.Sprintf("systematic-preempt(t%d@%d)", x, k)
				x, k := x, k
				run(c, func() vsChooser { return vsPreemptChooser(newVrand(seed+uint64(id)), x, k) }, 3000)
				id++
				sys++
			}
		}
	}
	// ---- exhaustive: every schedule of two arrivals against the callback goroutine(s) ----
	exh := 0
	complete := false
	{
		odo := &c20Odo{}
		for exh < exhMax {
			c := c20Case{ID: id, Kind: "exhaustive", Cb0: true, Inb: [][]int{{1, 2}, {3}}, Script: [][2]int{{1, 0}}}
			c.Cmp = exh%8 == 0
			c.Strat = "exhaustive"
			if budget.spent() {
				break
			}
			t0 := time.Now()
			res := c20Run(env, c, odo.chooser, 400)
			res.Ms = time.Since(t0).Milliseconds()
			budget.note(res)
			env.renewAfter(res)
			if !res.Cmp && len(res.Oracle) == 0 && len(res.Oracle10) == 0 {
				res.Steps = nil // keep the output small; the schedule is reproducible from the enumeration
			}
			o.emit(res)
			id++
			exh++
			if !odo.next() {
				complete = true
				break
			}
		}
	}
	// ---- callbacks installed late (known caveats, reproduced deterministically and at random) ----
	late := 0
	for _, cfg := range []struct {
		kind   string
		inb    [][]int
		script [][2]int
		prefix []int
	}{
		// the arrival is processed before SetCallbacks: nobody starts a goroutine for it
		{"late-setcb", [][]int{{7}}, nil, []int{0, 0, 0, 1, 1}},
		{"late-setcb", [][]int{{7, 8}, {9}}, nil, []int{0, 0, 0, 0, 0, 0, 1, 1}},
		// SetCallbacks stores callbackInProcess=0 after an arrival has already started a goroutine
		{"setcb-race", [][]int{{1}, {2}}, [][2]int{{0, 0}, {0, 0}}, []int{1, 0, 0, 0, 2, 2, 1, 0, 0, 0, 3, 3}},
	} {
		c := c20Case{ID: id, Kind: cfg.kind, Cmp: true, Cb0: false, Setter: true, Inb: cfg.inb, Script: cfg.script, Strat: "fixed-prefix"}
		run(c, func() vsChooser { return c20PrefixChooser(cfg.prefix) }, 3000)
		id++
		late++
	}
	// ---- the user reads (part of) what arrived synchronously, then installs callbacks; no further traffic ----
	for k := 0; k < 6+n/20; k++ {
		c := c20Case{ID: id, Kind: "sync-then-setcb", Cmp: true, Cb0: false, Setter: true}
		c.Inb = c20GenInb(r, 1+r.intn(2), 0)
		c.Sync = []int{[]int{0, 1, 2, 3, 100}[r.intn(5)]}
		if r.chance(30) {
			c.Sync = append(c.Sync, 1)
		}
		c.Script = c20GenScript(r, 0)
		// tids: 0 event loop, 1 the user (synchronous reads, then SetCallbacks)
		if k%3 != 2 {
			c.Strat = "arrivals;sync-read;then-random"
			run(c, func() vsChooser { return c20PhaseChooser([]int{0}, vsRandomChooser(r, 50, 0)) }, 3000)
		} else {
			strat, mk := c20Strategy(r, id, 2)
			c.Strat = strat
			run(c, mk, 3000)
		}
		id++
		late++
	}
	// ---- OnData starts with a blocking read of more than it was offered (a length-prefixed message flushed in parts):
	// the invocation parks in readMore with callbackInProcess = 1; what arrives while it is parked must reach it
	// without further traffic (the recvNotifyCh token is the only hand-off), and a close must wake it ----
	blocking := 0
	brd := func(k int) c20Case {
		c := c20Case{Kind: "blocking-read", Cmp: true, Cb0: true, Inb: [][]int{{3}, {7, 8, 9}}, Needs: []int{4}, Script: [][2]int{{0, 0}}}
		switch k % 4 {
		case 1: // the body arrives in two parts
			c.Inb = [][]int{{3}, {7}, {8, 9}}
		case 2: // two length-prefixed messages, each in two flushes
			c.Inb = [][]int{{2}, {5, 6}, {1}, {4}}
			c.Needs = []int{3, 2}
			c.Script = [][2]int{{0, 0}, {0, 0}}
		case 3: // the body never arrives; the peer closes instead: the read must fail, OnData must return
			c.Inb = [][]int{{3}, {}}
		}
		return c
	}
	for k := 0; k < 4; k++ { // deterministic: the invocation is parked before anything else arrives
		c := brd(k)
		c.ID, c.Strat = id, "park-first"
		run(c, func() vsChooser { return c20ParkFirstChooser(1) }, 3000)
		id++
		blocking++
	}
	for x := 0; x < 2; x++ {
		for k := 0; k <= 15; k++ {
			c := brd(k)
			c.ID = id
			c.Strat = fmt.Sprintf("systematic-preempt(t%d@%d)", x, k)
			x, k := x, k
			run(c, func() vsChooser { return vsPreemptChooser(newVrand(seed+uint64(id)), x, k/4+6) }, 3000)
			id++
			blocking++
		}
	}
	for k := 0; k < 10+n/8; k++ {
		c := c20Case{ID: id, Kind: "blocking-read", Cmp: true, Cb0: true}
		c.Inb = c20GenInb(r, 2+r.intn(3), 15)
		total := 0
		for _, e := range c.Inb {
			total += len(e)
		}
		for j := 0; j < 1+r.intn(2); j++ {
			c.Needs = append(c.Needs, 1+r.intn(total+1)) // sometimes more than will ever arrive: parked for good (legitimate)
			c.Script = append(c.Script, [2]int{0, 0})
		}
		if r.chance(35) {
			c.NCl = 1 // a Close() while the invocation is parked must wake it
			if r.chance(30) {
				c.Script[0][1] = 1
			}
		}
		for j := 0; j < 3; j++ {
			c.Picks = append(c.Picks, r.chance(50))
		}
		if k%3 == 0 {
			c.Strat = "park-first"
			run(c, func() vsChooser { return c20ParkFirstChooser(1 + c.NCl) }, 3000)
		} else {
			strat, mk := c20Strategy(r, id, 2+c.NCl)
			c.Strat = strat
			run(c, mk, 3000)
		}
		id++
		blocking++
	}
	// ---- Close() that read callbackInProcess = 0, a goroutine spawned right after, the next arrival sees closed ----
	run(c20Case{ID: id, Kind: "recycle-under-ondata", Strat: "fixed-prefix", Cmp: false, Cb0: true, NCl: 1, MidYield: true,
		Inb: [][]int{{1, 2, 3}, {4}}, Script: [][2]int{{3, 0}}},
		func() vsChooser {
			return c20PrefixChooser([]int{1, 1, 0, 0, 0, 0, 0, 0, 0, 2, 2, 2, 2, 2, 1, 1, 1, 0, 0, 0, 0, 0, 0, 0, 2})
		}, 3000)
	id++
	for k := 0; k < n/10; k++ {
		c := c20Case{ID: id, Kind: "late-setcb", Cmp: true, Cb0: false, Setter: true}
		c.Inb = c20GenInb(r, 1+r.intn(3), 0)
		c.Script = c20GenScript(r, 0)
		strat, mk := c20Strategy(r, id, 2)
		c.Strat = strat
		run(c, mk, 3000)
		id++
		late++
	}
	t.Logf("emitted %d cases (%d systematic, %d exhaustive complete=%v, %d late-callbacks, %d blocking-read)", id, sys, exh, complete, late, blocking)
	o.emit(map[string]interface{}{"summary": true, "exhaustive": exh, "exhaustive_complete": complete, "stopped_early_after_failures": budget.spent()})
}

// ---- real session pair (probabilistic support): numbered multi-slice messages from a continuous sender, a callback
// that pauses now and then so that several flushes are pending when the callback goroutine walks pendingData ----
type c20tCb struct {
	buf      []byte
	next     uint32 // next expected message number
	bad      string
	msgLen   int
	calls    int
	running  int32
	overlap  int32
	pauseAt  int
	done     chan struct{}
	total    uint32
	finished bool
	framed   bool  // OnData reads header (4 bytes: the message number) and body with blocking reads
	parks    int32 // blocking reads that found less than they asked for
}

func (c *c20tCb) OnData(r BufferReader) {
	if atomic.AddInt32(&c.running, 1) > 1 {
		atomic.StoreInt32(&c.overlap, 1)
	}
	defer atomic.AddInt32(&c.running, -1)
	c.calls++
	if c.pauseAt > 0 && c.calls%c.pauseAt == 0 {
		time.Sleep(300 * time.Microsecond)
	}
	n := r.Len()
	if n == 0 {
		return
	}
	if c.framed {
		// a length-prefixed protocol: read the header, then the body, each with a blocking read — when the sender
		// flushes them separately the read parks in readMore inside this invocation until the rest arrives
		for r.Len() > 0 {
			if r.Len() < 4 {
				atomic.AddInt32(&c.parks, 1)
			}
			h, err := r.ReadBytes(4)
			if err != nil {
				return
			}
			c.buf = append(c.buf, h...)
			if r.Len() < c.msgLen-4 {
				atomic.AddInt32(&c.parks, 1)
			}
			b, err := r.ReadBytes(c.msgLen - 4)
			if err != nil {
				return
			}
			c.buf = append(c.buf, b...)
			r.ReleasePreviousRead()
			c.check()
		}
		return
	}
	b, err := r.ReadBytes(n)
	if err != nil {
		return
	}
	c.buf = append(c.buf, b...)
	r.ReleasePreviousRead()
	c.check()
}

func (c *c20tCb) check() {
	for len(c.buf) >= c.msgLen {
		m := c.buf[:c.msgLen]
		seq := uint32(m[0])<<24 | uint32(m[1])<<16 | uint32(m[2])<<8 | uint32(m[3])
		if c.bad == "" {
			if seq != c.next {
				c.bad = fmt.Sprintf("message %d arrived where message %d was expected", seq, c.next)
			} else {
				for i := 4; i < c.msgLen; i++ {
					if m[i] != byte(seq+uint32(i)) {
						c.bad = fmt.Sprintf("message %d is corrupted at byte %d", seq, i)
						break
					}
				}
			}
		}
		c.next++
		c.buf = c.buf[c.msgLen:]
		if c.next == c.total && !c.finished {
			c.finished = true
			close(c.done)
		}
	}
}
func (c *c20tCb) OnLocalClose()  {}
func (c *c20tCb) OnRemoteClose() {}

type c20tCase struct {
	ID      int      `json:"id"`
	MsgLen  int      `json:"msg_len"`
	N       int      `json:"n"`
	Pause   int      `json:"pause_every"`
	Got     uint32   `json:"got"`
	Calls   int      `json:"calls"`
	Framed  bool     `json:"framed"` // header and body flushed separately, OnData reads them with blocking reads
	Parks   int32    `json:"parks"`  // blocking reads inside OnData that had to wait
	Oracle  []string `json:"oracle"`
	Skipped string   `json:"skipped"`
}

func TestVerif_C20T(t *testing.T) {
	seed := uint64(venvInt("VERIF_SEED", 1))
	rounds := venvInt("VERIF_N", 4)
	o := vopenOut(t)
	defer o.close()
	r := newVrand(seed ^ 0xC20)
	for id := 0; id < rounds; id++ {
		c := c20tCase{ID: id, MsgLen: []int{5000, 9000, 13000, 700}[r.intn(4)], N: 1500 + r.intn(1500), Pause: 2 + r.intn(6)}
		if id%2 == 1 {
			// "OnData reads a length-prefixed message that arrives in two flushes": the callback parks in its read,
			// the second flush must reach it without any further traffic
			c.Framed, c.MsgLen, c.N, c.Pause = true, []int{24, 200, 1500}[r.intn(3)], 300+r.intn(300), 0
		}
		cb := &c20tCb{msgLen: c.MsgLen, pauseAt: c.Pause, done: make(chan struct{}), total: uint32(c.N), framed: c.Framed}
		conf := testConf()
		conf.InitializeTimeout = 30 * time.Second
		cconn, sconn := testConn()
		ok := make(chan struct{})
		var server *Session
		sc := *conf
		sc.listenCallback = &c20tListen{cb: cb}
		go func() {
			var err error
			server, err = newSession(&sc, sconn, false)
			if err != nil {
				server = nil
			}
			close(ok)
		}()
		cc := *conf
		client, err := newSession(&cc, cconn, true)
		<-ok
		if err != nil || server == nil {
			c.Skipped = "session pair could not be created"
			o.emit(c)
			continue
		}
		cs, _ := client.OpenStream()
		msg := make([]byte, c.MsgLen)
		sendErr := ""
		for k := 0; k < c.N && sendErr == ""; k++ {
			seq := uint32(k)
			msg[0], msg[1], msg[2], msg[3] = byte(seq>>24), byte(seq>>16), byte(seq>>8), byte(seq)
			for i := 4; i < c.MsgLen; i++ {
				msg[i] = byte(seq + uint32(i))
			}
			parts := [][]byte{msg}
			if c.Framed {
				parts = [][]byte{msg[:4], msg[4:]}
			}
			for pi, part := range parts {
				if pi > 0 {
					time.Sleep(time.Duration(20+r.intn(200)) * time.Microsecond) // let the receiver park on the header
				}
				for try := 0; sendErr == ""; try++ {
					if _, err := cs.BufferWriter().WriteBytes(part); err != nil {
						sendErr = err.Error()
						break
					}
					err := cs.Flush(false)
					if err == nil {
						break
					}
					if try > 2000 {
						sendErr = err.Error()
						break
					}
					time.Sleep(100 * time.Microsecond) // queue full / no buffer: the receiver is behind
				}
			}
		}
		if sendErr != "" {
			c.Skipped = "sender could not send everything: " + sendErr
		} else {
			select {
			case <-cb.done:
			case <-time.After(8 * time.Second):
				c.Oracle = append(c.Oracle, fmt.Sprintf("no-strand: only %d of %d messages reached OnData within 8 s although nothing more is in flight", cb.next, c.N))
			}
		}
		c.Got, c.Calls, c.Parks = cb.next, cb.calls, atomic.LoadInt32(&cb.parks)
		if cb.bad != "" {
			c.Oracle = append(c.Oracle, "order/once: "+cb.bad)
		}
		if atomic.LoadInt32(&cb.overlap) == 1 {
			c.Oracle = append(c.Oracle, "serial: OnData ran twice at the same time")
		}
		_ = cs.Close()
		client.Close()
		server.Close()
		o.emit(c)
		if len(c.Oracle) > 0 {
			break // one failing round is a concrete input; more of them only cost time
		}
	}
}

type c20tListen struct{ cb *c20tCb }

func (l *c20tListen) OnNewStream(s *Stream)    { _ = s.SetCallbacks(l.cb) }
func (l *c20tListen) OnShutdown(reason string) {}
