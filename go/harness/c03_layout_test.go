//go:build verif

package shmipc

// C03 correspondence + oracle harness (mechanism D).
//
// Runs the REAL createBufferManager / mappingBufferManager (second bufferManager over the same
// bytes), createQueueFromBytes / mappingQueueFromBytes, and — on real /dev/shm files and memfds —
// createQueueManager[WithMemFd] / mappingQueueManager[Memfd], on generated configurations.  Every call
// is wrapped in recover(): a panic is an observable.  One JSON line per case goes to VERIF_OUT:
// the configuration, the outcome class, the geometry seen by the creating and by the mapping side,
// and the verdicts of the property oracle, which is evaluated here directly on the Go structures
// (pairwise disjointness, in bounds, behind headers, peer equality, initial free chain, cross-wiring)
// and does not know the Coq model.

import (
	"fmt"
	"go/ast"
	"go/parser"
	"go/token"
	"os"
	"sort"
	"testing"
	"unsafe"

	syscall "golang.org/x/sys/unix"
)

type c03Class struct {
	Off  int64 `json:"off"`  // offsetInShm
	ROff int64 `json:"roff"` // bufferRegionOffsetInShm
	RLen int64 `json:"rlen"` // len(bufferRegion)
	Size int64 `json:"size"` // *size viewed as uint32
	Cap  int64 `json:"cap"`
	Head int64 `json:"head"`
	Tail int64 `json:"tail"`
	Cpb  int64 `json:"cpb"`
}

type c03Queue struct {
	Cap    int64 `json:"cap"`
	HeadAt int64 `json:"head_at"`
	TailAt int64 `json:"tail_at"`
	FlagAt int64 `json:"flag_at"`
	Lo     int64 `json:"lo"`
	Hi     int64 `json:"hi"`
}

type c03Case struct {
	ID   int    `json:"id"`
	Kind string `json:"kind"` // bm | bmfile | bmmemfd | q | qmfile | qmmemfd
	Gen  string `json:"gen"`  // which generator branch produced it
	// buffer manager
	Pairs    [][2]int64 `json:"pairs,omitempty"`
	MemLen   int64      `json:"memlen"`
	Fill     int64      `json:"fill"`  // initial 32-bit word of the memory
	Guard    bool       `json:"guard"` // the property's hypotheses hold (n>=1, sizes<=memLen, 4 GiB guards)
	Create   string     `json:"create,omitempty"`
	CErr     string     `json:"cerr,omitempty"`
	CClasses []c03Class `json:"cclasses,omitempty"`
	ListNum  int64      `json:"listnum"`
	UsedLen  int64      `json:"usedlen"`
	Map      string     `json:"map,omitempty"`
	MErr     string     `json:"merr,omitempty"`
	MClasses []c03Class `json:"mclasses,omitempty"`
	// allocation state at the moment the peer maps: slots the creator holds per class, and the (size, head, tail)
	// header words after those allocations
	Held  []int64    `json:"held,omitempty"`
	Alloc [][3]int64 `json:"alloc,omitempty"`
	// queues
	QCap     int64      `json:"qcap"`
	QDataLen int64      `json:"qdatalen"`
	QCreate  string     `json:"qcreate,omitempty"`
	QMap     string     `json:"qmap,omitempty"`
	QA       []c03Queue `json:"qa,omitempty"` // creator: [send, recv]  (kind q: [the queue])
	QB       []c03Queue `json:"qb,omitempty"` // mapper:  [send, recv]  (kind q: [the queue])
	QMemSize int64      `json:"qmemsize"`
	Skipped  string     `json:"skipped,omitempty"` // back-end not available in this environment
	Oracle   []string   `json:"oracle"`
	Degen    []string   `json:"degen"` // property-relevant misbehaviour outside the proved guards
	Tie      []string   `json:"tie"`   // a modelling assumption that is not a generated constant does not hold
	Feat     []string   `json:"feat"`
}

func c03Try(f func()) (panicked bool, msg string) {
	defer func() {
		if r := recover(); r != nil {
			panicked = true
			msg = fmt.Sprint(r)
		}
	}()
	f()
	return
}

func c03U32(b []byte, at uint32) uint32 { return *(*uint32)(unsafe.Pointer(&b[at])) }

func c03ClassOf(l *bufferList) c03Class {
	return c03Class{Off: int64(l.offsetInShm), ROff: int64(l.bufferRegionOffsetInShm), RLen: int64(len(l.bufferRegion)),
		Size: int64(uint32(*l.size)), Cap: int64(*l.cap), Head: int64(*l.head), Tail: int64(*l.tail), Cpb: int64(*l.capPerBuffer)}
}

type c03Iv struct {
	lo, hi int64
	what   string
}

// walk the initial free chain of one list through the real memory
func c03WalkChain(l *bufferList, add func(string)) (offs []int64) {
	region := l.bufferRegion
	cpb := int64(*l.capPerBuffer)
	capN := int64(*l.cap)
	cur := int64(*l.head)
	for n := int64(0); ; n++ {
		if n > capN {
			add("chain: longer than cap (cycle or overrun)")
			return
		}
		if cur+bufferHeaderSize+cpb > int64(len(region)) {
			add("chain: slot reaches outside its buffer region")
			return
		}
		offs = append(offs, cur)
		if int64(c03U32(region, uint32(cur)+bufferCapOffset)) != cpb {
			add("chain: slot header cap differs from capPerBuffer")
		}
		if region[uint32(cur)+bufferFlagOffset]&hasNextBufferFlag == 0 {
			break
		}
		cur = int64(c03U32(region, uint32(cur)+nextBufferOffset))
	}
	if int64(len(offs)) != capN {
		add("chain: does not visit cap slots")
	}
	if offs[len(offs)-1] != int64(*l.tail) {
		add("chain: does not end at tail")
	}
	return
}

// the property oracle for one created manager (creator side)
func c03OracleLayout(bm *bufferManager, pairs [][2]int64, memLen int64, add func(string)) {
	if len(bm.lists) != len(pairs) {
		add("classes: number of lists differs from number of pairs")
		return
	}
	base := uintptr(0)
	if memLen > 0 {
		base = uintptr(unsafe.Pointer(&bm.mem[0]))
	}
	ivs := []c03Iv{{0, bufferManagerHeaderSize, "manager header"}}
	for j, l := range bm.lists {
		cpb := int64(*l.capPerBuffer)
		if cpb != pairs[j][0] {
			add("classes: capPerBuffer differs from the configured size")
		}
		if *l.cap == 0 {
			add("classes: list with zero slots")
			continue
		}
		roff, rlen, off := int64(l.bufferRegionOffsetInShm), int64(len(l.bufferRegion)), int64(l.offsetInShm)
		if rlen > 0 && uintptr(unsafe.Pointer(&l.bufferRegion[0]))-base != uintptr(roff) {
			add("region: bufferRegion is not at bufferRegionOffsetInShm")
		}
		if off < bufferManagerHeaderSize {
			add("bounds: list header overlaps the manager header")
		}
		if roff < off+bufferListHeaderSize {
			add("bounds: slots start inside their list header")
		}
		if roff+rlen > memLen || off < 0 {
			add("bounds: region reaches outside the mapping")
		}
		ivs = append(ivs, c03Iv{off, off + bufferListHeaderSize, "list header"})
		offs := c03WalkChain(l, add)
		if len(offs) == 0 {
			continue
		}
		if !sort.SliceIsSorted(offs, func(a, b int) bool { return offs[a] < offs[b] }) {
			sort.Slice(offs, func(a, b int) bool { return offs[a] < offs[b] })
		}
		for k := 1; k < len(offs); k++ {
			if offs[k-1]+bufferHeaderSize+cpb > offs[k] {
				add("disjoint: two slots of one class overlap")
				break
			}
		}
		ivs = append(ivs, c03Iv{roff + offs[0], roff + offs[len(offs)-1] + bufferHeaderSize + cpb, "slots"})
	}
	sort.Slice(ivs, func(a, b int) bool { return ivs[a].lo < ivs[b].lo })
	for k := 1; k < len(ivs); k++ {
		if ivs[k-1].hi > ivs[k].lo {
			add("disjoint: " + ivs[k-1].what + " overlaps " + ivs[k].what)
		}
	}
	if ivs[len(ivs)-1].hi > memLen {
		add("bounds: slots reach outside the mapping")
	}
}

// peer equality: the mapper must see exactly the creator's classes
func c03OraclePeer(a, b *bufferManager, sameMem bool, add func(string)) {
	if len(a.lists) != len(b.lists) {
		add("peer: number of lists differs")
		return
	}
	for j := range a.lists {
		x, y := a.lists[j], b.lists[j]
		cx, cy := c03ClassOf(x), c03ClassOf(y)
		switch {
		case cx.Cpb != cy.Cpb:
			add("peer: capPerBuffer differs")
		case cx.Cap != cy.Cap:
			add("peer: cap differs")
		case cx.ROff != cy.ROff || cx.Off != cy.Off:
			add("peer: region offset differs")
		case cx.RLen != cy.RLen:
			add("peer: region length differs")
		case cx.Head != cy.Head:
			add("peer: head differs")
		case cx.Tail != cy.Tail:
			add("peer: tail differs")
		case cx.Size != cy.Size:
			add("peer: size differs")
		}
		if sameMem {
			if unsafe.Pointer(x.size) != unsafe.Pointer(y.size) || x.cap != y.cap || x.head != y.head || x.tail != y.tail || x.capPerBuffer != y.capPerBuffer {
				add("peer: a header field is read at a different address than it was written")
			}
			if len(x.bufferRegion) > 0 && len(y.bufferRegion) > 0 && &x.bufferRegion[0] != &y.bufferRegion[0] {
				add("peer: buffer regions start at different addresses")
			}
		}
	}
	if a.minSliceSize != b.minSliceSize || a.maxSliceSize != b.maxSliceSize {
		add("peer: min/max slice size differs")
	}
}

// ---------------------------------------------------------------------------------------------
// generators
// ---------------------------------------------------------------------------------------------

func c03LogUniform(r *vrand, lo, hi int64) int64 {
	if hi <= lo {
		return lo
	}
	// pick a bit length uniformly, then a value of that length, clamp
	bl, bh := 0, 0
	for v := lo; v > 0; v >>= 1 {
		bl++
	}
	for v := hi; v > 0; v >>= 1 {
		bh++
	}
	b := bl + r.intn(bh-bl+1)
	var v int64
	if b == 0 {
		v = 0
	} else {
		v = int64(1)<<(uint(b)-1) + int64(r.u64()%(uint64(1)<<(uint(b)-1)))
	}
	if v < lo {
		v = lo
	}
	if v > hi {
		v = hi
	}
	return v
}

func c03Percents(r *vrand, n int, valid bool) (ps []int64, mode string) {
	ps = make([]int64, n)
	if n == 0 {
		return ps, "no pairs"
	}
	split := func(total int) {
		// random composition of total into n parts, each >= 0, mostly >= 1
		rest := total
		for i := 0; i < n; i++ {
			if i == n-1 {
				ps[i] = int64(rest)
				break
			}
			maxp := rest - (n - 1 - i)
			if maxp < 0 {
				maxp = 0
			}
			p := 0
			if maxp > 0 {
				p = 1 + r.intn(maxp)
			}
			ps[i] = int64(p)
			rest -= p
			if rest < 0 {
				rest = 0
			}
		}
	}
	k := r.intn(100)
	if valid {
		k = r.intn(62)
	}
	switch {
	case k < 50:
		mode = "sum=100"
		split(100)
	case k < 62:
		mode = "sum<100"
		split(1 + r.intn(99))
	case k < 74:
		mode = "sum>100"
		split(101 + r.intn(60))
	case k < 84:
		mode = "zero-percent class"
		split(100)
		z := r.intn(n)
		if n > 1 {
			ps[(z+1)%n] += ps[z]
		}
		ps[z] = 0
	case k < 92:
		mode = "sum=101/99 boundary"
		split(100)
		if r.chance(50) {
			ps[r.intn(n)]++
		} else if j := r.intn(n); ps[j] > 0 {
			ps[j]--
		}
	default:
		mode = "wrapping percent"
		split(100)
		j := r.intn(n)
		ps[j] = (int64(1) << 32) - int64(r.intn(101)) - int64(r.intn(2))*ps[j]
		if ps[j] >= int64(1)<<32 {
			ps[j] = (int64(1) << 32) - 1
		}
	}
	return
}

// A percentage of 2^32-q steps the uint32 running sum back by q, so the sum check passes although the
// classes before it already own (almost) the whole mapping; the class then gets the budget
// uint32(regionCap*(2^32-q)/100), which is tiny exactly when regionCap ~ 2^32/q and regionCap%100 == 1.
// Such a class is granted room that does not exist: only the bounds checks of createFreeBufferList stand
// between this configuration and a buffer region that reaches outside the mapping.
func c03GenWrapTargeted(r *vrand) (pairs [][2]int64, memLen int64, ok bool) {
	q := int64(65 + r.intn(36))
	rc0 := (int64(1) << 32) / q
	var cands [][2]int64
	for rc := rc0 - rc0%100 + 1 - 30000; rc <= rc0; rc += 100 {
		x := int64(uint32(uint64(rc) * uint64((int64(1)<<32)-q) / 100))
		if x >= 21 && x <= 200000 && rc+80 <= 64<<20 {
			cands = append(cands, [2]int64{rc, x})
		}
	}
	if len(cands) == 0 {
		return nil, 0, false
	}
	c := cands[r.intn(len(cands))]
	rc, x := c[0], c[1]
	memLen = rc + bufferManagerHeaderSize + 2*bufferListHeaderSize
	p1 := q + int64(r.intn(int(100-q)+1))
	if r.chance(70) {
		p1 = 100 // the first class owns the whole region
	}
	s1 := c03LogUniform(r, 21, 400000) // stride of the first class; its leftover is what the second class can use
	if r.chance(30) {
		// leave exactly / one byte less than what the second class will ask for
		s2 := int64(21 + r.intn(40))
		need := x / s2 * s2
		budget := rc * p1 / 100
		if budget > need+21 {
			s1 = budget - need + int64(r.intn(3)) - 1
			if p1 < 100 {
				s1 = budget
			}
		}
		pairs = [][2]int64{{s1 - bufferHeaderSize, p1}, {s2 - bufferHeaderSize, (int64(1) << 32) - q}}
		return pairs, memLen, true
	}
	s2 := c03LogUniform(r, 21, maxI64(21, x))
	pairs = [][2]int64{{s1 - bufferHeaderSize, p1}, {s2 - bufferHeaderSize, (int64(1) << 32) - q}}
	return pairs, memLen, true
}

// Every class fills its share exactly: regionCap = 100 * k * (product of the strides), so each budget
// regionCap*pct/100 is a multiple of its stride and the classes use the mapping to the last byte
// (len(mem) == 8 + sum(36 + n_i*(size_i+20))); also one byte more and one byte less.
func c03GenExactFitAll(r *vrand) (pairs [][2]int64, memLen int64, delta int64) {
	n := 1 + r.intn(3)
	prod := int64(1)
	strides := make([]int64, n)
	for i := range strides {
		strides[i] = bufferHeaderSize + 1 + int64(r.intn(64))
		prod *= strides[i]
	}
	maxK := (16 << 20) / (100 * prod)
	if maxK < 1 {
		maxK = 1
	}
	k := c03LogUniform(r, 1, maxK)
	rc := 100 * prod * k
	ps, _ := c03Percents(r, n, true)
	sum := int64(0)
	for _, p := range ps {
		sum += p
	}
	ps[0] += 100 - sum // the valid mode may also produce sum < 100; make it 100
	for i := 0; i < n; i++ {
		pairs = append(pairs, [2]int64{strides[i] - bufferHeaderSize, ps[i]})
	}
	if r.chance(40) {
		delta = int64(r.intn(3)) - 1
	}
	memLen = rc + bufferManagerHeaderSize + int64(n)*bufferListHeaderSize + delta
	return
}

func c03GenBM(r *vrand) (pairs [][2]int64, memLen int64, fill byte, gen string) {
	if r.chance(4) {
		ps, ml, d := c03GenExactFitAll(r)
		return ps, ml, []byte{0, 0xFF, 0xA5}[r.intn(3)], fmt.Sprintf("mem exact, unsorted, sum=100, every class fills its share exactly (%+d byte)", d)
	}
	if r.chance(4) {
		if ps, ml, ok := c03GenWrapTargeted(r); ok {
			return ps, ml, 0, "mem large, unsorted, wrapping percent aimed at the bounds checks"
		}
	}
	n := 1 + r.intn(6)
	if r.chance(1) {
		n = 0
	}
	switch k := r.intn(100); {
	case k < 8:
		memLen = int64(r.intn(101))
		gen = "mem tiny"
	case k < 30:
		memLen = c03LogUniform(r, 100, 4096)
		gen = "mem small"
	case k < 65:
		memLen = c03LogUniform(r, 4096, 1<<20)
		gen = "mem medium"
	default:
		memLen = c03LogUniform(r, 1<<20, 64<<20)
		gen = "mem large"
	}
	sizes := make([]int64, n)
	fit := make([]bool, n)
	valid := r.chance(55) // a configuration meant to be accepted: every class gets room
	for i := range sizes {
		k := r.intn(100)
		if valid {
			k = 50
		}
		switch {
		case k < 2:
			sizes[i] = 0
		case k < 5:
			sizes[i] = memLen + 1 + c03LogUniform(r, 0, 1<<20) // violates VerifyConfig's rule
		case k < 7:
			// size+20 wraps in uint32: rejected with an error since /repo db4e530 (2^32-20 used to divide by zero,
			// the other values gave strides below 20 bytes)
			sizes[i] = (int64(1) << 32) - 1 - int64(r.intn(24))
		case k < 12:
			sizes[i] = memLen - int64(r.intn(64)) // whole-mapping slices
		default:
			hi := memLen
			if r.chance(60) && hi > 1<<17 {
				hi = 1 << 17
			}
			sizes[i] = c03LogUniform(r, 1, hi)
			fit[i] = valid || r.chance(75)
		}
		if sizes[i] < 0 {
			sizes[i] = 0
		}
	}
	if r.chance(70) {
		sort.Slice(sizes, func(a, b int) bool { return sizes[a] < sizes[b] })
		gen += ", sorted"
	} else {
		gen += ", unsorted"
	}
	if n > 1 && r.chance(10) {
		sizes[r.intn(n)] = sizes[r.intn(n)] // duplicate sizes
	}
	ps, mode := c03Percents(r, n, valid)
	gen += ", " + mode
	// mostly-valid: shrink a size so that its class gets room for at least one slot; sometimes exactly one
	// slot, sometimes one byte too large for its share (the class that gets no room)
	rc := memLen - bufferManagerHeaderSize - int64(n)*bufferListHeaderSize
	for i := 0; i < n; i++ {
		if !fit[i] || ps[i] > 100 || rc <= 0 {
			continue
		}
		share := rc*ps[i]/100 - bufferHeaderSize
		if share < 1 {
			continue
		}
		k := r.intn(100)
		if valid && k >= 8 && k < 12 {
			k = 50
		}
		switch {
		case k < 8:
			sizes[i] = share // exactly one slot
		case k < 12:
			sizes[i] = share + 1 // no room
		case k < 20:
			sizes[i] = share/2 - int64(r.intn(3)) + 1 // one or two slots
		default:
			if sizes[i] > share {
				sizes[i] = c03LogUniform(r, 1, share)
			}
		}
		if sizes[i] < 1 {
			sizes[i] = 1
		}
	}
	for i := 0; i < n; i++ {
		pairs = append(pairs, [2]int64{sizes[i], ps[i]})
	}
	// exact-fit boundaries: the mapping holds k slots of the first class exactly, one byte more, one less
	if n >= 1 && !valid && r.chance(40) && sizes[0] > 0 && sizes[0] < 1<<20 {
		k := int64(1 + r.intn(4))
		if r.chance(30) {
			k = 1
		}
		if n == 1 {
			pairs[0][1] = 100
		}
		memLen = bufferManagerHeaderSize + int64(n)*bufferListHeaderSize + k*(sizes[0]+bufferHeaderSize)*100/maxI64(pairs[0][1], 1) + int64(r.intn(3)) - 1
		if pairs[0][1] > 100 || memLen < 0 || memLen > 64<<20 {
			memLen = bufferManagerHeaderSize + int64(n)*bufferListHeaderSize + k*(sizes[0]+bufferHeaderSize) + int64(r.intn(3)) - 1
		}
		gen += ", exact-fit boundary"
	}
	switch k := r.intn(10); {
	case k < 6:
		fill = 0
	case k < 8:
		fill = 0xFF
	default:
		fill = 0xA5
	}
	return
}

func maxI64(a, b int64) int64 {
	if a > b {
		return a
	}
	return b
}

const c03Canary = 0x5C
const c03Slack = 64

// The creator allocates k slots of every class through the real bufferList.pop before the peer maps: the
// peer's view of the layout must not depend on the state of the free lists (size / head / tail change, the
// geometry does not).  k: 0, 1, a random number, or all but the one slot pop never hands out.
func c03Allocate(r *vrand, a *bufferManager) (held [][]*bufferSlice, ks []int64, st [][3]int64) {
	for _, l := range a.lists {
		free := int64(*l.cap) - 1
		var k int64
		switch x := r.intn(100); {
		case x < 20:
			k = 0
		case x < 40:
			k = 1
		case x < 60:
			k = free
		default:
			k = c03LogUniform(r, 0, free)
		}
		if k > free {
			k = free
		}
		if k > 20000 {
			k = 20000
		}
		var hs []*bufferSlice
		for i := int64(0); i < k; i++ {
			sl, err := l.pop()
			if err != nil {
				break
			}
			hs = append(hs, sl)
		}
		held = append(held, hs)
		ks = append(ks, int64(len(hs)))
		st = append(st, [3]int64{int64(uint32(*l.size)), int64(*l.head), int64(*l.tail)})
	}
	return
}

// The peer uses what it mapped: the class must reach to its last slot (same slots as the creator's), a pop /
// push pair works at the region end, and the slots the creator holds can be given back through the peer's
// lists; afterwards every class is full again and its chain visits every slot.
func c03PeerUse(a, b *bufferManager, held [][]*bufferSlice, add func(string)) {
	for j, y := range b.lists {
		if j >= len(a.lists) {
			break
		}
		x := a.lists[j]
		cpb, capN := int64(*x.capPerBuffer), int64(*x.cap)
		last := (capN - 1) * (cpb + bufferHeaderSize)
		if p, _ := c03Try(func() {
			h := y.bufferRegion[last : last+bufferHeaderSize+cpb]
			_ = h[len(h)-1]
		}); p {
			add("peer: the last slot of a class lies outside the peer's class region")
			continue
		}
		if p, msg := c03Try(func() {
			if *y.size >= 2 {
				sl, err := y.pop()
				if err != nil {
					add("peer: pop fails on a class with free slots")
				} else {
					y.push(sl)
				}
			}
			if j < len(held) {
				for _, sl := range held[j] {
					y.push(sl)
				}
			}
		}); p {
			add("panic: the peer's pop/push on a mapped class panicked: " + msg)
			continue
		}
		if int64(*y.size) != capN || *x.size != *y.size {
			add("peer: free count is not back to cap after everything was recycled through the peer")
		}
		if p, msg := c03Try(func() { c03WalkChain(y, add) }); p {
			add("panic: walking the peer's chain panicked: " + msg)
		}
	}
}

// run one buffer-manager case on `mem` (capacity == length); `buf` is mem plus the canary tail
func c03RunBM(c *c03Case, mem []byte, canary []byte, r *vrand) {
	add := func(s string) { c.Oracle = append(c.Oracle, s) }
	feat := func(s string) { c.Feat = append(c.Feat, s) }
	n := len(c.Pairs)
	pairs := make([]*SizePercentPair, n)
	// the hypotheses of the proved statements: C03_buffers_partial (mapping below 4 GiB - 36 B, any percentages),
	// or C03_buffers_config (what VerifyConfig enforces: percent sum = 100 in int, sizes <= capacity < 2^32 — plus
	// room for the list headers, which the code does not enforce)
	partial := n >= 1 && c.MemLen+bufferListHeaderSize < 1<<32 && n < 1<<16
	config := n >= 1 && c.MemLen < 1<<32 && bufferListHeaderSize*int64(n)+bufferManagerHeaderSize <= c.MemLen
	psum := int64(0)
	for i, p := range c.Pairs {
		pairs[i] = &SizePercentPair{Size: uint32(p[0]), Percent: uint32(p[1])}
		psum += p[1]
		if p[0] > c.MemLen {
			partial, config = false, false
		}
	}
	c.Guard = partial || (config && psum == 100)
	// does the library's own VerifyConfig accept this configuration?  (classifies what happens outside the guards)
	verifyOK := false
	if c.MemLen < 1<<32 {
		conf := DefaultConfig()
		conf.ShareMemoryBufferCap = uint32(c.MemLen)
		conf.BufferSliceSizes = pairs
		conf.ShareMemoryPathPrefix, conf.QueuePath = "/dev/shm/verif_c03_cfg", "/dev/shm/verif_c03_cfg_queue"
		verifyOK = VerifyConfig(conf) == nil
	}
	var a, b *bufferManager
	var err error
	if p, msg := c03Try(func() { a, err = createBufferManager(pairs, "verif-c03", mem, 0) }); p {
		c.Create, c.CErr = "Panic", msg
	} else if err != nil {
		c.Create, c.CErr = "Err", err.Error()
	} else {
		c.Create = "Ok"
	}
	for _, x := range canary {
		if x != c03Canary {
			if c.MemLen >= bufferManagerHeaderSize {
				add("bounds: bytes after the mapping were written")
			} else {
				c.Degen = append(c.Degen, "createBufferManager writes its 2-byte list count into a mapping shorter than 2 bytes")
			}
			break
		}
	}
	if c.Create == "Panic" {
		if c.Guard {
			add("panic: createBufferManager panicked")
		} else if verifyOK {
			c.Degen = append(c.Degen, "createBufferManager panics on a configuration VerifyConfig accepts")
		} else {
			c.Degen = append(c.Degen, "createBufferManager panics on a configuration VerifyConfig would reject")
		}
		return
	}
	if c.Create != "Ok" {
		return
	}
	for _, l := range a.lists {
		c.CClasses = append(c.CClasses, c03ClassOf(l))
	}
	if len(mem) >= 8 {
		c.ListNum = int64(*(*uint16)(unsafe.Pointer(&mem[0])))
		c.UsedLen = int64(c03U32(mem, bmCapOffset))
		fb := byte(c.Fill)
		if fb != 0 && (mem[2] != fb || mem[3] != fb || int(c.ListNum) != n%65536) {
			c.Tie = append(c.Tie, "the list count is not a 2-byte field at offset 0 of the manager header")
		}
	}
	var orc []string
	oadd := func(s string) { orc = append(orc, s) }
	if p, msg := c03Try(func() { c03OracleLayout(a, c.Pairs, c.MemLen, oadd) }); p {
		oadd("panic: walking the created layout panicked: " + msg)
	}
	// the creator allocates before the peer maps (only inside the guards: outside them regions may overlap)
	var held [][]*bufferSlice
	if c.Guard && r != nil && len(orc) == 0 {
		if p, msg := c03Try(func() { held, c.Held, c.Alloc = c03Allocate(r, a) }); p {
			oadd("panic: allocating from a freshly created class panicked: " + msg)
		}
	}
	// the mapping side: a second bufferManager over the same bytes
	var merr error
	if p, msg := c03Try(func() { b, merr = mappingBufferManager("verif-c03", mem, 0) }); p {
		c.Map, c.MErr = "Panic", msg
		oadd("peer: mappingBufferManager panicked on a layout its peer created")
	} else if merr != nil {
		c.Map, c.MErr = "Err", merr.Error()
		oadd("peer: mappingBufferManager rejects a layout its peer created")
	} else {
		c.Map = "Ok"
		for _, l := range b.lists {
			c.MClasses = append(c.MClasses, c03ClassOf(l))
		}
		if p, msg := c03Try(func() { c03OraclePeer(a, b, true, oadd) }); p {
			oadd("panic: comparing the two views panicked: " + msg)
		}
		if c.Guard && len(orc) == 0 {
			c03PeerUse(a, b, held, oadd)
		}
		for _, k := range c.Held {
			if k > 0 {
				feat("peer maps while slots are allocated")
				break
			}
		}
	}
	if c.Guard {
		c.Oracle = append(c.Oracle, orc...)
	} else {
		c.Degen = append(c.Degen, orc...)
	}
	// features (for the coverage report)
	for j, cl := range c.CClasses {
		if cl.Cap == 1 {
			feat("one-slot class")
		}
		if cl.Cap >= 1000 {
			feat(">=1000 slots")
		}
		if j > 0 && c.Pairs[j][0] < c.Pairs[j-1][0] {
			feat("unsorted pairs accepted")
		}
	}
	if n >= 3 {
		feat(">=3 classes")
	}
	if c.UsedLen+bufferManagerHeaderSize == c.MemLen {
		feat("mapping filled to the last byte")
	}
}

func c03QueueOf(q *queue, base uintptr, dataOff int64) c03Queue {
	o := c03Queue{Cap: q.cap,
		HeadAt: int64(uintptr(unsafe.Pointer(q.head)) - base), TailAt: int64(uintptr(unsafe.Pointer(q.tail)) - base),
		FlagAt: int64(uintptr(unsafe.Pointer(q.workingFlag)) - base)}
	// a zero-length ring has no addressable element; its position follows from the slice expression
	// data[queueHeaderLength:end], which we re-read from the slice header instead of &ring[0]
	type sliceHeader struct {
		p        unsafe.Pointer
		len, cap int
	}
	sh := (*sliceHeader)(unsafe.Pointer(&q.queueBytesOnMemory))
	o.Lo = int64(uintptr(sh.p) - base)
	if sh.len == 0 && sh.cap == 0 {
		// Go may normalise the pointer of a zero-capacity slice result; position is then meaningless
		o.Lo = dataOff + queueHeaderLength
	}
	o.Hi = o.Lo + int64(sh.len)
	return o
}

// heap queue: createQueueFromBytes + mappingQueueFromBytes on the same bytes
func c03RunQ(c *c03Case, big bool) {
	add := func(s string) { c.Oracle = append(c.Oracle, s) }
	var data, d []byte
	if big {
		// a capacity whose ring is gigabytes long: an anonymous, lazily backed private mapping of exactly the
		// length the capacity needs (MAP_NORESERVE); only the header page and the pages of the elements we touch
		// are ever backed.  Unmapped right away.
		m, err := syscall.Mmap(-1, 0, int(c.QDataLen), syscall.PROT_READ|syscall.PROT_WRITE, syscall.MAP_ANON|syscall.MAP_PRIVATE|syscall.MAP_NORESERVE)
		if err != nil {
			c.Skipped = "mmap: " + err.Error()
			return
		}
		defer syscall.Munmap(m)
		data, d = m, m[:c.QDataLen:c.QDataLen]
	} else {
		data = make([]byte, c.QDataLen+c03Slack)
		for i := range data {
			data[i] = 0xEE
		}
		for i := c.QDataLen; i < int64(len(data)); i++ {
			data[i] = c03Canary
		}
		d = data[:c.QDataLen:c.QDataLen]
	}
	// the property speaks about a queue whose memory is what its capacity needs (every uint32 capacity)
	c.Guard = c.QDataLen == queueHeaderLength+queueElementLen*c.QCap
	base := uintptr(unsafe.Pointer(&data[0]))
	var qa, qb *queue
	if p, _ := c03Try(func() { qa = createQueueFromBytes(d, uint32(c.QCap)) }); p {
		c.QCreate = "Panic"
		if c.Guard {
			add("panic: createQueueFromBytes panicked")
		}
		return
	}
	c.QCreate = "Ok"
	c.QA = []c03Queue{c03QueueOf(qa, base, 0)}
	if c.QDataLen >= 4 && c03U32(d, 0) != uint32(c.QCap) {
		c.Tie = append(c.Tie, "the queue capacity word is not the uint32 at data[0]")
	}
	if p, _ := c03Try(func() { qb = mappingQueueFromBytes(d) }); p {
		c.QMap = "Panic"
		add("peer: mappingQueueFromBytes panicked on a freshly created queue")
		return
	}
	c.QMap = "Ok"
	c.QB = []c03Queue{c03QueueOf(qb, base, 0)}
	a, b := c.QA[0], c.QB[0]
	var orc []string
	if a != b {
		orc = append(orc, "peer: the mapped queue differs from the created one")
	}
	if a.Hi-a.Lo != queueElementLen*c.QCap || a.Cap != c.QCap {
		orc = append(orc, "queue: the ring does not hold cap elements")
	}
	if a.Lo < queueHeaderLength || a.Hi > c.QDataLen {
		orc = append(orc, "bounds: ring outside its half or inside the queue header")
	}
	if *qa.head != 0 || *qa.tail != 0 || *qa.workingFlag != 0 {
		orc = append(orc, "queue: head/tail/flag not zeroed by create")
	}
	for i := c.QDataLen; i < int64(len(data)); i++ {
		if data[i] != c03Canary {
			orc = append(orc, "bounds: bytes after the queue memory were written")
			break
		}
	}
	if c.Guard {
		c.Oracle = append(c.Oracle, orc...)
	}
	// round trip through the ring when it can hold something
	if c.Guard && c.QCap > 0 {
		e := queueElement{seqID: 0xC03, offsetInShmBuf: uint32(c.ID), status: 7}
		if p, msg := c03Try(func() {
			if big {
				// start at the LAST element of the ring, so the far end of the mapping is really used
				*qa.head, *qa.tail = c.QCap-1, c.QCap-1
			}
			for k := int64(0); k < c.QCap && k < 5; k++ {
				if qa.put(e) != nil {
					add("queue: put fails on a non-full queue")
				}
			}
			got, err := qb.pop()
			if err != nil || got != e {
				add("queue: element put through the creator's view is not popped through the mapper's view")
			}
		}); p {
			add("panic: put/pop on a fresh queue panicked: " + msg)
		}
	}
}

type c03QM struct {
	qm  *queueManager
	mem []byte
}

// real back-ends: createQueueManager + mappingQueueManager on a /dev/shm file, or the memfd pair
func c03RunQM(c *c03Case, memfd bool) {
	add := func(s string) { c.Oracle = append(c.Oracle, s) }
	c.Guard = true
	var A, B *queueManager
	var err error
	path := fmt.Sprintf("/dev/shm/verif_c03_q_%d_%d", os.Getpid(), c.ID)
	defer func() {
		for _, m := range []*queueManager{A, B} {
			if m != nil && m.mem != nil {
				_ = syscall.Munmap(m.mem)
			}
		}
		if memfd {
			if A != nil {
				_ = syscall.Close(A.memFd)
			}
		} else {
			_ = os.Remove(path)
		}
	}()
	if p, msg := c03Try(func() {
		if memfd {
			A, err = createQueueManagerWithMemFd("verif_c03_q", uint32(c.QCap))
		} else {
			A, err = createQueueManager(path, uint32(c.QCap))
		}
	}); p {
		c.QCreate = "Panic"
		add("panic: create queue manager panicked: " + msg)
		return
	}
	if err != nil {
		c.QCreate = "Err"
		c.Skipped = "create: " + err.Error()
		A = nil
		return
	}
	c.QCreate = "Ok"
	c.QMemSize = int64(len(A.mem))
	baseA := uintptr(unsafe.Pointer(&A.mem[0]))
	half := int64(len(A.mem) / 2)
	c.QA = []c03Queue{c03QueueOf(A.sendQueue, baseA, 0), c03QueueOf(A.recvQueue, baseA, half)}
	if p, msg := c03Try(func() {
		if memfd {
			B, err = mappingQueueManagerMemfd("verif_c03_q", A.memFd)
		} else {
			B, err = mappingQueueManager(path)
		}
	}); p {
		c.QMap = "Panic"
		add("panic: mapping queue manager panicked: " + msg)
		return
	}
	if err != nil {
		c.QMap = "Err"
		add("peer: the queue mapping created by one side cannot be mapped by the other")
		B = nil
		return
	}
	c.QMap = "Ok"
	baseB := uintptr(unsafe.Pointer(&B.mem[0]))
	c.QB = []c03Queue{c03QueueOf(B.sendQueue, baseB, half), c03QueueOf(B.recvQueue, baseB, 0)}
	if len(B.mem) != len(A.mem) {
		add("peer: the two sides map different lengths")
	}
	// cross-wiring by position
	if c.QA[0] != c.QB[1] {
		add("wiring: creator's send queue is not the mapper's receive queue")
	}
	if c.QA[1] != c.QB[0] {
		add("wiring: creator's receive queue is not the mapper's send queue")
	}
	// the two queues of one side: disjoint, in bounds, ring holds cap elements, ring behind the header
	s, r := c.QA[0], c.QA[1]
	lo := func(q c03Queue) int64 { return q.HeadAt - 4 } // the cap word precedes head... only used for ordering
	_ = lo
	for _, q := range []c03Queue{s, r} {
		if q.Hi-q.Lo != queueElementLen*c.QCap || q.Cap != c.QCap {
			add("queue: the ring does not hold cap elements")
		}
		if q.Hi > c.QMemSize || q.HeadAt < 0 || q.TailAt < 0 || q.FlagAt < 0 {
			add("bounds: queue outside the mapping")
		}
		if q.HeadAt+8 > q.Lo || q.TailAt+8 > q.Lo || q.FlagAt+4 > q.Lo {
			add("bounds: ring overlaps its own header fields")
		}
	}
	first, second := s, r
	if r.HeadAt < s.HeadAt {
		first, second = r, s
	}
	if first.Hi > minI64(second.HeadAt, minI64(second.TailAt, second.FlagAt))-4 {
		add("disjoint: the two queues overlap")
	}
	// cross-wiring by behaviour: a tagged element through each direction
	if c.QCap > 0 {
		if p, msg := c03Try(func() {
			e1 := queueElement{seqID: 0xA0B0, offsetInShmBuf: uint32(c.ID), status: 1}
			e2 := queueElement{seqID: 0xB0A0, offsetInShmBuf: uint32(c.ID) + 1, status: 2}
			if A.sendQueue.put(e1) != nil || B.sendQueue.put(e2) != nil {
				add("queue: put fails on a non-full queue")
				return
			}
			g1, err1 := B.recvQueue.pop()
			g2, err2 := A.recvQueue.pop()
			if err1 != nil || g1 != e1 {
				add("wiring: element sent by the creator does not arrive in the mapper's receive queue")
			}
			if err2 != nil || g2 != e2 {
				add("wiring: element sent by the mapper does not arrive in the creator's receive queue")
			}
			if _, e := B.recvQueue.pop(); e == nil {
				add("wiring: an element arrived twice")
			}
			if _, e := A.recvQueue.pop(); e == nil {
				add("wiring: an element arrived twice")
			}
		}); p {
			add("panic: put/pop across the two sides panicked: " + msg)
		}
	}
}

func minI64(a, b int64) int64 {
	if a < b {
		return a
	}
	return b
}

// real back-ends for the buffer region: two independent mmaps of the same file / memfd
func c03RunBMBackend(c *c03Case, memfd bool, r *vrand) {
	add := func(s string) { c.Oracle = append(c.Oracle, s) }
	var fd int
	var err error
	path := fmt.Sprintf("/dev/shm/verif_c03_b_%d_%d", os.Getpid(), c.ID)
	if memfd {
		fd, err = MemfdCreate("verif_c03_b", 0)
	} else {
		fd, err = syscall.Open(path, syscall.O_CREAT|syscall.O_RDWR|syscall.O_EXCL, 0o600)
		defer os.Remove(path)
	}
	if err != nil {
		c.Skipped = "open: " + err.Error()
		return
	}
	defer syscall.Close(fd)
	if err = syscall.Ftruncate(fd, c.MemLen); err != nil {
		c.Skipped = "truncate: " + err.Error()
		return
	}
	m1, err := syscall.Mmap(fd, 0, int(c.MemLen), syscall.PROT_READ|syscall.PROT_WRITE, syscall.MAP_SHARED)
	if err != nil {
		c.Skipped = "mmap: " + err.Error()
		return
	}
	defer syscall.Munmap(m1)
	m2, err := syscall.Mmap(fd, 0, int(c.MemLen), syscall.PROT_READ|syscall.PROT_WRITE, syscall.MAP_SHARED)
	if err != nil {
		c.Skipped = "mmap: " + err.Error()
		return
	}
	defer syscall.Munmap(m2)
	c.Guard = true
	pairs := make([]*SizePercentPair, len(c.Pairs))
	for i, p := range c.Pairs {
		pairs[i] = &SizePercentPair{Size: uint32(p[0]), Percent: uint32(p[1])}
	}
	var a, b *bufferManager
	if p, msg := c03Try(func() { a, err = createBufferManager(pairs, "verif-c03", m1, 0) }); p {
		c.Create = "Panic"
		add("panic: createBufferManager panicked: " + msg)
		return
	}
	if err != nil {
		c.Create, c.CErr = "Err", err.Error()
		return
	}
	c.Create = "Ok"
	for _, l := range a.lists {
		c.CClasses = append(c.CClasses, c03ClassOf(l))
	}
	c.ListNum = int64(*(*uint16)(unsafe.Pointer(&m1[0])))
	c.UsedLen = int64(c03U32(m1, bmCapOffset))
	if p, msg := c03Try(func() { c03OracleLayout(a, c.Pairs, c.MemLen, add) }); p {
		add("panic: walking the created layout panicked: " + msg)
	}
	// the creator allocates before the peer maps its own mapping of the file
	var held [][]*bufferSlice
	if len(c.Oracle) == 0 {
		if p, msg := c03Try(func() { held, c.Held, c.Alloc = c03Allocate(r, a) }); p {
			add("panic: allocating from a freshly created class panicked: " + msg)
		}
	}
	if p, msg := c03Try(func() { b, err = mappingBufferManager("verif-c03", m2, 0) }); p {
		c.Map = "Panic"
		add("peer: mappingBufferManager panicked on a layout its peer created: " + msg)
		return
	}
	if err != nil {
		c.Map, c.MErr = "Err", err.Error()
		add("peer: mappingBufferManager rejects a layout its peer created")
		return
	}
	c.Map = "Ok"
	for _, l := range b.lists {
		c.MClasses = append(c.MClasses, c03ClassOf(l))
	}
	c03OraclePeer(a, b, false, add)
	// bytes written through the first/last slot of each class on one side are read back on the other
	if p, msg := c03Try(func() {
		for j := range a.lists {
			if j >= len(b.lists) {
				break
			}
			x, y := a.lists[j], b.lists[j]
			for _, so := range []uint32{*x.head, *x.tail} {
				at := so + bufferHeaderSize
				last := at + *x.capPerBuffer - 1
				x.bufferRegion[last] = byte(0x30 + j)
				x.bufferRegion[at] = byte(0xC0 + j)
				if int(last) >= len(y.bufferRegion) || y.bufferRegion[at] != byte(0xC0+j) || (last != at && y.bufferRegion[last] != byte(0x30+j)) {
					add("peer: data written through one side's slot is not seen through the other side's slot")
				}
			}
		}
	}); p {
		add("panic: write-through probe panicked: " + msg)
	}
	// the peer works on its own mapping: the held slices are re-read there by offset before it recycles them
	var heldB [][]*bufferSlice
	for j, hs := range held {
		var hb []*bufferSlice
		for _, sl := range hs {
			if j < len(b.lists) {
				y := b.lists[j]
				o := sl.offsetInShm - y.bufferRegionOffsetInShm
				if p, _ := c03Try(func() {
					hb = append(hb, newBufferSlice(y.bufferRegion[o:o+bufferHeaderSize], y.bufferRegion[o+bufferHeaderSize:o+bufferHeaderSize+*y.capPerBuffer], sl.offsetInShm, true))
				}); p {
					add("peer: a slot the creator handed out lies outside the peer's class region")
				}
			}
		}
		heldB = append(heldB, hb)
	}
	if len(c.Oracle) == 0 {
		c03PeerUse(a, b, heldB, add)
	}
	for _, k := range c.Held {
		if k > 0 {
			c.Feat = append(c.Feat, "peer maps while slots are allocated")
			break
		}
	}
	c.Feat = append(c.Feat, "real back-end")
}

// ---------------------------------------------------------------------------------------------

// ---------------------------------------------------------------------------------------------
// source tie (an AST pattern over the CURRENT buffer_manager.go, complementing the generated offsets):
// the mapping side must derive the extent of a class from the header words `cap` and `capPerBuffer`
// — never from `size`, the current free count — both where it cuts the class region
// (mappingFreeBufferList: needSize) and where it steps to the next list header (mappingBufferManager).
// Accepted shapes: countBufferListMemSize(<expr over .cap>, <expr over .capPerBuffer>) directly, or a
// niladic method of *bufferList whose body is `return` of such a call.  Anything else is reported.
// ---------------------------------------------------------------------------------------------

func c03MentionsField(e ast.Expr, field string) bool {
	found := false
	ast.Inspect(e, func(n ast.Node) bool {
		if se, ok := n.(*ast.SelectorExpr); ok && se.Sel.Name == field {
			found = true
		}
		return true
	})
	return found
}

func c03SourceTie() (ties []string) {
	fset := token.NewFileSet()
	f, err := parser.ParseFile(fset, "buffer_manager.go", nil, 0)
	if err != nil {
		return []string{"source tie: cannot parse buffer_manager.go: " + err.Error()}
	}
	funcs := map[string]*ast.FuncDecl{}
	for _, d := range f.Decls {
		if fd, ok := d.(*ast.FuncDecl); ok {
			funcs[fd.Name.Name] = fd
		}
	}
	var resolve func(e ast.Expr, depth int) *ast.CallExpr
	resolve = func(e ast.Expr, depth int) *ast.CallExpr {
		call, ok := e.(*ast.CallExpr)
		if !ok || depth > 3 {
			return nil
		}
		if id, ok := call.Fun.(*ast.Ident); ok && id.Name == "countBufferListMemSize" && len(call.Args) == 2 {
			return call
		}
		if se, ok := call.Fun.(*ast.SelectorExpr); ok && len(call.Args) == 0 {
			if fd := funcs[se.Sel.Name]; fd != nil && fd.Recv != nil && fd.Body != nil && len(fd.Body.List) == 1 {
				if rs, ok := fd.Body.List[0].(*ast.ReturnStmt); ok && len(rs.Results) == 1 {
					return resolve(rs.Results[0], depth+1)
				}
			}
		}
		return nil
	}
	check := func(fn, lhs, what string) {
		fd := funcs[fn]
		if fd == nil || fd.Body == nil {
			ties = append(ties, "source tie: function "+fn+" not found")
			return
		}
		var rhs ast.Expr
		ast.Inspect(fd.Body, func(n ast.Node) bool {
			if as, ok := n.(*ast.AssignStmt); ok && len(as.Lhs) == 1 && len(as.Rhs) == 1 {
				if id, ok := as.Lhs[0].(*ast.Ident); ok && id.Name == lhs && rhs == nil {
					rhs = as.Rhs[0]
				}
			}
			return true
		})
		if rhs == nil {
			ties = append(ties, "source tie: "+fn+": no assignment to "+lhs+" ("+what+") found")
			return
		}
		call := resolve(rhs, 0)
		if call == nil {
			ties = append(ties, "source tie: "+fn+": "+what+" is not computed by countBufferListMemSize(cap, capPerBuffer) in a recognised shape")
			return
		}
		if !c03MentionsField(call.Args[0], "cap") || c03MentionsField(call.Args[0], "size") {
			ties = append(ties, "source tie: "+fn+": "+what+" does not take the slot count from the cap word of the list header")
		}
		if !c03MentionsField(call.Args[1], "capPerBuffer") {
			ties = append(ties, "source tie: "+fn+": "+what+" does not take the slot capacity from the capPerBuffer word")
		}
	}
	check("mappingFreeBufferList", "needSize", "the extent of a mapped class")
	check("mappingBufferManager", "size", "the step to the next list header")
	return
}

func TestVerif_C03(t *testing.T) {
	out := vopenOut(t)
	defer out.close()
	n := venvInt("VERIF_N", 600)
	seed := uint64(venvInt("VERIF_SEED", 1))
	r := newVrand(seed)
	id := 0
	emit := func(c *c03Case) {
		if c.Oracle == nil {
			c.Oracle = []string{}
		}
		if c.Degen == nil {
			c.Degen = []string{}
		}
		if c.Feat == nil {
			c.Feat = []string{}
		}
		if c.Tie == nil {
			c.Tie = []string{}
		}
		out.emit(c)
		id++
	}

	// (0) source tie
	emit(&c03Case{ID: id, Kind: "src", Gen: "source tie", Tie: c03SourceTie()})

	// (1) buffer managers over heap bytes
	buf := make([]byte, (64<<20)+c03Slack)
	for k := 0; k < n; k++ {
		pairs, memLen, fill, gen := c03GenBM(r)
		if memLen > 64<<20 {
			memLen = 64 << 20
		}
		c := &c03Case{ID: id, Kind: "bm", Gen: gen, Pairs: pairs, MemLen: memLen, Fill: int64(fill) * 0x01010101}
		region := buf[:memLen+c03Slack]
		for i := range region[:memLen] {
			region[i] = fill
		}
		for i := memLen; i < memLen+c03Slack; i++ {
			region[i] = c03Canary
		}
		c03RunBM(c, region[:memLen:memLen], region[memLen:], r)
		emit(c)
	}

	// (1b) the last bytes below 4 GiB, on a lazily backed anonymous mapping of 2^32-1 bytes (only the pages of the
	// headers that are written get backed): two honest configurations VerifyConfig accepts (C03_buffers_config
	// regime, where C03_buffers_partial's guard fails), and the accepted configuration whose Size+20 wraps to 0
	// (divided by zero before /repo db4e530, must be an error now)
	for _, pairs := range [][][2]int64{
		{{1 << 31, 100}},
		{{1 << 30, 50}, {1<<30 + 4096, 50}},
		{{(1 << 32) - bufferHeaderSize, 100}},
	} {
		memLen := int64(1)<<32 - 1
		c := &c03Case{ID: id, Kind: "bm", Gen: "4 GiB - 1 mapping, lazily mapped", Pairs: pairs, MemLen: memLen, Fill: 0}
		m, err := syscall.Mmap(-1, 0, int(memLen), syscall.PROT_READ|syscall.PROT_WRITE, syscall.MAP_ANON|syscall.MAP_PRIVATE|syscall.MAP_NORESERVE)
		if err != nil {
			c.Skipped = "mmap: " + err.Error()
		} else {
			c03RunBM(c, m[:memLen:memLen], nil, r)
			_ = syscall.Munmap(m)
		}
		emit(c)
	}

	// (2) queues over heap bytes: every small capacity, random ones, and capacities beyond 2^32/12
	var caps []int64
	for k := int64(0); k <= 20; k++ {
		caps = append(caps, k)
	}
	for k := 0; k < n/10+10; k++ {
		caps = append(caps, c03LogUniform(r, 1, 200000))
	}
	for _, qc := range caps {
		c := &c03Case{ID: id, Kind: "q", Gen: "exact memory", QCap: qc, QDataLen: queueHeaderLength + queueElementLen*qc}
		c03RunQ(c, false)
		emit(c)
	}
	// capacities whose byte size does not fit a uint32 (the ring end was computed in uint32 before /repo 97d22d3):
	// three of them on a lazily backed mapping of the full length, put/pop at the last element; all of them on
	// memory far too short for the capacity (the slice expression must panic, as for any short memory)
	large := []int64{357913939, 357913940, 357913941, 357913942, 357913943, 357913950, 715827882, 715827883, 1 << 31, (1 << 32) - 1, (1 << 32) - 2}
	for _, qc := range []int64{357913940, 357913942, 715827883} {
		c := &c03Case{ID: id, Kind: "q", Gen: "large capacity, lazily mapped", QCap: qc, QDataLen: queueHeaderLength + queueElementLen*qc}
		c03RunQ(c, true)
		emit(c)
	}
	for _, qc := range large {
		for _, dl := range []int64{24, 64, 4096} {
			c := &c03Case{ID: id, Kind: "q", Gen: "large capacity, short memory", QCap: qc, QDataLen: dl}
			c03RunQ(c, false)
			emit(c)
		}
	}
	// memory shorter / longer than the capacity needs (what a mapper of a foreign file would face)
	for k := 0; k < 30; k++ {
		qc := c03LogUniform(r, 0, 2000)
		dl := int64(r.intn(int(queueHeaderLength+queueElementLen*qc) + 40))
		c := &c03Case{ID: id, Kind: "q", Gen: "memory/capacity mismatch", QCap: qc, QDataLen: dl}
		c03RunQ(c, false)
		emit(c)
	}

	// (3) real back-ends, both kinds: queue managers (cross-wiring) and buffer regions
	for _, memfd := range []bool{false, true} {
		kind := "qmfile"
		if memfd {
			kind = "qmmemfd"
		}
		qcaps := []int64{0, 1, 2, 3, 4, 7, 8, 64, 1000, 16384}
		for k := 0; k < 4; k++ {
			qcaps = append(qcaps, c03LogUniform(r, 1, 100000))
		}
		for _, qc := range qcaps {
			c := &c03Case{ID: id, Kind: kind, Gen: "real back-end", QCap: qc}
			c03RunQM(c, memfd)
			emit(c)
		}
	}
	for _, memfd := range []bool{false, true} {
		kind := "bmfile"
		if memfd {
			kind = "bmmemfd"
		}
		nb := 8
		if n >= 5000 {
			nb = 25 // thorough tier: 50 buffer regions on real back-ends
		}
		for k := 0; k < nb; k++ {
			var pairs [][2]int64
			var memLen int64
			for {
				pairs, memLen, _, _ = c03GenBM(r)
				ok := memLen >= 4096 && memLen <= 4<<20 && len(pairs) > 0
				for _, p := range pairs {
					if p[0] > memLen || p[0] == 0 || p[1] > 100 {
						ok = false
					}
				}
				if ok {
					break
				}
			}
			c := &c03Case{ID: id, Kind: kind, Gen: "real back-end", Pairs: pairs, MemLen: memLen, Fill: 0}
			c03RunBMBackend(c, memfd, r)
			emit(c)
		}
	}
}
