//go:build verif

package shmipc

// Schedule drivers for mechanism S: run controlled threads one shared access at a time.

type vsStepRec struct {
	Tid int      `json:"tid"`
	Ev  *vsEvent `json:"ev"` // nil: the step was a no-op (thread finished)
}

// vsChooser returns the next thread to step (index into threads) or -1 to stop.
type vsChooser func(alive []int, all int, lastTid int, lastEv *vsEvent) int

// vsDrive steps threads until all are done or maxSteps is reached.  afterStep is called after
// every step with the step index.
func vsDrive(threads []*vsThread, choose vsChooser, maxSteps int, afterStep func(i int, rec vsStepRec)) (steps []vsStepRec, finished bool) {
	// threads started by instrumented code (gopool.Go) join the pool dynamically
	dyn := len(threads) == 0
	last := -1
	var lastEv *vsEvent
	for i := 0; i < maxSteps; i++ {
		if dyn {
			threads = vs.threads
		}
		al := vsAlive(threads)
		if len(al) == 0 {
			return steps, true
		}
		t := choose(al, len(threads), last, lastEv)
		if t < 0 {
			break
		}
		n := len(vs.log)
		vsStep(threads[t])
		rec := vsStepRec{Tid: t}
		if len(vs.log) > n {
			ev := vs.log[len(vs.log)-1]
			rec.Ev = &ev
		}
		steps = append(steps, rec)
		last, lastEv = t, rec.Ev
		if afterStep != nil {
			afterStep(i, rec)
		}
	}
	if dyn {
		threads = vs.threads
	}
	return steps, len(vsAlive(threads)) == 0
}

func vsAlive(threads []*vsThread) []int {
	var a []int
	for i, t := range threads {
		if !t.done {
			a = append(a, i)
		}
	}
	return a
}

// vsFinish runs every remaining thread to completion (round robin) so that no goroutine leaks.
func vsFinish(threads []*vsThread) {
	for guard := 0; guard < 1000000; guard++ {
		a := vsAlive(threads)
		if len(a) == 0 {
			return
		}
		vsStep(threads[a[guard%len(a)]])
	}
}

// random chooser: uniform (sticky=0) or with runs (sticky = percent chance to continue the same thread);
// a thread that just found the mutex busy is not chosen again immediately if another is alive.
func vsRandomChooser(r *vrand, sticky int, noopPct int) vsChooser {
	return func(al []int, all int, last int, lastEv *vsEvent) int {
		if noopPct > 0 && r.chance(noopPct) {
			return r.intn(all) // may be a finished thread: a no-op step
		}
		busy := lastEv != nil && lastEv.Kind == vsKBusy
		if last >= 0 && !busy && r.chance(sticky) {
			for _, a := range al {
				if a == last {
					return last
				}
			}
		}
		if busy && len(al) > 1 {
			for tries := 0; tries < 8; tries++ {
				c := r.pick(al)
				if c != last {
					return c
				}
			}
		}
		return r.pick(al)
	}
}

// preempt-once chooser: run thread x for k steps, then all others to completion (sticky random),
// then x again.
func vsPreemptChooser(r *vrand, x, k int) vsChooser {
	count := 0
	inner := vsRandomChooser(r, 85, 0)
	return func(al []int, all int, last int, lastEv *vsEvent) int {
		xAlive := false
		var others []int
		for _, a := range al {
			if a == x {
				xAlive = true
			} else {
				others = append(others, a)
			}
		}
		if xAlive && count < k {
			count++
			return x
		}
		if lastEv != nil && lastEv.Kind == vsKBusy && len(al) > 1 {
			// somebody else holds the mutex: let any other thread move
			for tries := 0; tries < 16; tries++ {
				c := r.pick(al)
				if c != last {
					return c
				}
			}
		}
		if len(others) > 0 {
			return inner(others, all, last, lastEv)
		}
		return x
	}
}
