#!/bin/sh
# Run once after a fresh restore (offline): build the Coq development, the instrumenter, warm the Go cache.
set -e
cd "$(dirname "$0")"
export GOFLAGS=-mod=mod GOPROXY=off GOSUMDB=off GOTOOLCHAIN=local SHMIPC_LOG_LEVEL=5
mkdir -p .work evidence replays
python3 - <<'PY'
import sys
sys.path.insert(0, ".")
from vlib import core, gen, sched
d, e = gen.regenerate()
if e: print("gen:", e)
sched.build_tool()
ok, log, secs = core.coq_build()
print("coq build ok=%s in %.0fs" % (ok, secs))
if not ok:
    print(log[-3000:]); sys.exit(1)
PY
(cd /repo && go test -vet=off -count=1 -run '^$' . >/dev/null 2>&1 || true)
echo setup done
