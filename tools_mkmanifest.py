#!/usr/bin/env python3
# Regenerates MANIFEST.json from props/*.py (META dict of each plugin) — keeps the manifest valid.
import importlib, json, os, sys
sys.path.insert(0, os.path.dirname(os.path.abspath(__file__)))
ids = [json.loads(l)["id"] for l in open("properties.jsonl")]
checks, na = [], []
ready = set(open("props/READY.txt").read().split())   # properties whose check has been reviewed and is green
for pid in ids:
    if pid in ready and os.path.exists("props/%s.py" % pid):
        m = importlib.import_module("props." + pid)
        meta = getattr(m, "META", {})
        checks.append({
            "property_id": pid,
            "quick_cmd": "./check %s --tier quick" % pid,
            "thorough_cmd": "./check %s --tier thorough" % pid,
            "evidence_file": "/verif/evidence/%s.json" % pid,
            "replay_cmd_template": "./check %s --replay {path}" % pid,
            "engine": "coq-proof+correspondence",
            "level_claimed": {"category": "proof", "text": meta.get("level_text", ""), "design_ref": "DESIGN.md §5 " + pid},
            "level_note": meta.get("level_note", ""),
            "technique": meta.get("technique", "machine-checked proof in Coq 8.16.1 of an executable Gallina model + correspondence check against /repo"),
        })
    else:
        na.append({"property_id": pid, "reason": "check not built yet in this snapshot of /verif (work in progress; the design in DESIGN.md §5 claims it)"})
man = {
    "version": 1,
    "setup_cmd": "./setup.sh",
    "hooks": {"guard": "verif", "enable": "go test -tags verif -overlay <generated> (harness files and instrumented copies are injected through the overlay; nothing is committed in /repo)",
              "baseline_off_cmd": "cd /repo && GOFLAGS=-mod=mod go test -vet=off -count=1 -timeout 25m ./...",
              "source_commits": [], "add_only": True},
    "engines": [{"name": "coq-proof+correspondence", "path": "/verif/check",
                 "serves_properties": [c["property_id"] for c in checks],
                 "kind_free_text": "Coq 8.16.1 theorems about hand-written executable Gallina models (coq/theories), tied to /repo on every run by a generated-constants translator (G), differential execution (D), schedule-level trace comparison of the real instrumented functions (S) and acceptance of observed histories (T)"}],
    "checks": checks,
    "not_applicable": na,
    "notes": "see DESIGN.md; known findings in known_findings.json",
}
json.dump(man, open("MANIFEST.json", "w"), indent=1)
print("claimed:", [c["property_id"] for c in checks])
